NOTES = ("Every check runs the real code from /repo's working tree (PYTHONPATH first) in fresh interpreters; "
         "exit 0 held / 1 VIOLATION / 2 INCONCLUSIVE (never folded). Known findings: KNOWN_FINDINGS.txt.")
NOT_YET = {}
TRUST = ("Holds for the generated executions only. Trusted: numpy/scipy/astropy/matplotlib as installed, the harness's own "
         "FITS writers and reference models (independent numerics; validated by the seeded-break catalogue).")

reg('C01', 'exploration',
    'Post-condition monitor on Fitter.fit: every row of every result is compared with a longdouble bounded least-squares optimum computed from package truth (objective gap, clamping, re-optimised scale, chi^2 = residual sum + limit penalties) over thousands of generated (package, law, source, A_V range) executions with regime quotas.',
    TRUST + ' Regression condition number >= 1e-8; float32 memmap compared with a propagated bound.',
    'runtime contract (icontract) + reference-model oracle over generated workloads', '4/C01')
