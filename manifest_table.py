NOTES = ("Every check runs the real code from /repo's working tree (PYTHONPATH first) in fresh interpreters; "
         "exit 0 held / 1 VIOLATION / 2 INCONCLUSIVE (never folded). Known findings: KNOWN_FINDINGS.txt.")
NOT_YET = {}
TRUST = ("Holds for the generated executions only. Trusted: numpy/scipy/astropy/matplotlib as installed, the harness's own "
         "FITS writers and reference models (independent numerics; validated by the seeded-break catalogue).")

reg('C01', 'exploration',
    'Post-condition monitor on Fitter.fit: every row of every result is compared with a longdouble bounded least-squares optimum computed from package truth (objective gap, clamping, re-optimised scale, chi^2 = residual sum + limit penalties) over thousands of generated (package, law, source, A_V range) executions with regime quotas.',
    TRUST + ' Regression condition number >= 1e-8; float32 memmap compared with a propagated bound.',
    'runtime contract (icontract) + reference-model oracle over generated workloads', '4/C01')

reg('C02', 'exploration',
    'State probe after Fitter construction (distance grid: ends, log-uniform, spacing<=step, fewest points; per-distance model fluxes vs python aperture interpolation, clamp above, refuse below, (1kpc/d)^2) and post-condition on Fitter.fit (chi^2 is the grid minimum, attained at the reported distance; A_V is the clipped 1-parameter optimum there) against a longdouble reference from package truth.',
    TRUST + ' Distance-grid size when L/step is an integer to 1e-9: n or n+1. Ties between distances free. float32 paths compared with stated dex bounds.',
    'runtime state probe + post-condition contract + reference-model oracle over generated workloads', '4/C02')
reg('C03', 'exploration',
    'Metamorphic monitor over paired Fitter.fit executions for every flag vector in {0,1,2,3,4,9}^n (n<=4 quick, n<=5 thorough, exhaustive) x fresh photometry x both modes: hostile values in ignored slots leave outputs bit-identical and equal to band removal; limit->flag 0 leaves the solution unchanged and changes chi^2 by exactly the penalty on the forbidden side; confidence 0 = flag 0; confidence 1 => >=1e30; flag 1 rewritten as flag 4 gives the reference optimum of the original data. The C01/C02 numeric reference runs on every regular base fit.',
    TRUST + ' Predicted flux within 1e-9 dex of a limit: either outcome. Limits carry positive finite fluxes.',
    'metamorphic runtime monitor (paired executions) + reference oracle, exhaustive small scope', '4/C03')
reg('C04', 'exploration',
    'Post-condition monitor on Fitter.fit: structural invariant INV-FI (equal lengths, chi^2 non-decreasing with NaN suffix, unique ids), each model exactly once, model_id/name refer to the same package row, and row coherence: chi^2 and the stored predicted fluxes recomputed from the truth fluxes of the model the row names at the row\'s own A_V/scale/distance. Workloads include exact ties, 1e30 rows, remove_resolved, 1 and 200 models.',
    TRUST + ' remove_resolved only with use_memmap=False; tie order free.',
    'structural invariant + row-coherence oracle at the Fitter.fit boundary', '4/C04')
reg('C05', 'exploration',
    'snapshot+post-condition contract on FitInfo.keep against a set-theoretic reading of docs/select_syntax.rst with IEEE comparisons: expected survivor count, survivors are the prefix of the pre-call arrays with all per-fit arrays cut alike and n_fits equal; idempotence and looser-selector-first compositions; every ordered chi^2 vector of length <=4 (quick) / <=5 (thorough) over {0,1,2.5,7,1e30,inf,NaN}, all selector forms with thresholds mid-way between attained values.',
    TRUST + " ('A', value) two-element form; thresholds never equal an attained value (docs say below, code says <=).",
    'runtime contract with snapshot (icontract) + executable model, exhaustive small scope', '4/C05')
reg('C11', 'exploration',
    'Online snapshot/post-condition on every Fitter.fit (source object and fitter state bit-identical before/after) plus metamorphic pairs compared per model name: filter permutations (all 720 of 6 filters in thorough), model-row permutations, flux scaling over 8 decades (scale shifts by -0.5 log10 c), fit histories (all orderings of <=4 preceding fits, sampled 6) bit-identical to a fresh fitter.',
    TRUST + ' Filter permutations re-associate sums: 1e-9/cond on parameters.',
    'snapshot contract + metamorphic history/permutation pairs', '4/C11')
reg('C12', 'exploration',
    'write->read round trips of SED, SEDCube and ConvolvedFluxes over the configuration matrix (axis order x read order x 4 flux units x apertures/uncertainties present or absent x memmap x aperture length unit) with position-encoding values compared cell-wise by wavelength value; other-order read is the exact reversal; cube->SED extraction; post-condition contracts on the readers (requested order honoured, wav*nu=c).',
    TRUST + ' SED files materialise one dummy aperture by design.',
    'round-trip monitor with position-encoding values + reader post-conditions; configuration matrix enumerated', '4/C12')
reg('C14', 'exploration',
    'Post-condition contract on Extinction.get_av against an independent python interpolation (-0.4 chi/chi_V, 0 outside, -0.4 at V within 4 ulp), invariance pairs (chi x c over 16 decades, 5 wavelength units x 2 opacity units), refusals of non-length queries, round trips through pickle, table and the text-file reader with every column pair.',
    TRUST + ' Queries within 1e-12 relative of a table end are a don\'t-care; tables must increase and cover V.',
    'runtime contract + reference interpolation + invariance pairs', '4/C14')
reg('C15', 'exploration',
    'Post-condition contract on convert_flux (patched in every importing namespace) and SED.read(unit_flux=) over the enumerated 5x5 unit matrix x unit-string spellings (legacy, FITS standard, SED.write) against explicit cgs factors; A->B->A identity, A->B->C = A->C; unsupported stored/requested units refused.',
    TRUST + ' rtol 1e-12.',
    'runtime contract + explicit-constant oracle; unit matrix enumerated', '4/C15')
reg('C20', 'exploration',
    'Post-condition contract on Source.from_ascii (every successful parse compared with an independent reading of the line; accepted malformed lines flagged) plus outcome classification at the call boundary (object / EOFError / other error) for every column count 0..3n+6, n<=12, all flag vectors n<=3, every bad flag token in every position; round trips to_ascii, dict, pickle.',
    TRUST + ' Flag tokens are plain decimal integers.',
    'runtime contract + outcome classification, exhaustive over column counts / small flag alphabets', '4/C20')
