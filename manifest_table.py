NOTES = ("Every check runs the real code from /repo's working tree (PYTHONPATH first) in fresh interpreters; "
         "exit 0 held / 1 VIOLATION / 2 INCONCLUSIVE (never folded). Known findings: KNOWN_FINDINGS.txt.")
NOT_YET = {}
TRUST = ("Holds for the generated executions only. Trusted: numpy/scipy/astropy/matplotlib as installed, the harness's own "
         "FITS writers and reference models (independent numerics; validated by the seeded-break catalogue).")

reg('C01', 'exploration',
    'Post-condition monitor on Fitter.fit: every row of every result is compared with a longdouble bounded least-squares optimum computed from package truth (objective gap, clamping, re-optimised scale, chi^2 = residual sum + limit penalties) over thousands of generated (package, law, source, A_V range) executions with regime quotas.',
    TRUST + ' Regression condition number >= 1e-8; float32 memmap compared with a propagated bound.',
    'runtime contract (icontract) + reference-model oracle over generated workloads', '4/C01')

reg('C02', 'exploration',
    'State probe after Fitter construction (distance grid: ends, log-uniform, spacing<=step, fewest points; the flux table the fitter holds is only recorded) and post-condition on Fitter.fit: the model flux at each distance (python aperture interpolation from package truth, per-band aperture tables, files in mJy/Jy/uJy, clamp above, (1kpc/d)^2) enters through the reference fit, so (chi^2 is the grid minimum, attained at the reported distance; A_V is the clipped 1-parameter optimum there) against a longdouble reference from package truth.',
    TRUST + ' Distance-grid size when L/step is an integer to 1e-9: n or n+1. Ties between distances free. float32 paths compared with stated dex bounds.',
    'runtime state probe + post-condition contract + reference-model oracle over generated workloads', '4/C02')
reg('C03', 'exploration',
    'Metamorphic monitor over paired Fitter.fit executions for every flag vector in {0,1,2,3,4,9}^n (n<=4 quick, n<=5 thorough, exhaustive) x fresh photometry x both modes: hostile values in ignored slots leave outputs bit-identical and equal to band removal; limit->flag 0 leaves the solution unchanged and changes chi^2 by exactly the penalty on the forbidden side; confidence 0 = flag 0; confidence 1 => >=1e30; flag 1 rewritten as flag 4 gives the reference optimum of the original data. The C01/C02 numeric reference runs on every regular base fit.',
    TRUST + ' Predicted flux within 1e-9 dex of a limit: either outcome. Limits carry positive finite fluxes.',
    'metamorphic runtime monitor (paired executions) + reference oracle, exhaustive small scope', '4/C03')
reg('C04', 'exploration',
    'Post-condition monitor on Fitter.fit: structural invariant INV-FI (equal lengths, chi^2 non-decreasing with NaN suffix, unique ids), each model exactly once, model_id/name refer to the same package row, and row coherence: chi^2 and the stored predicted fluxes recomputed from the truth fluxes of the model the row names at the row\'s own A_V/scale/distance. Workloads include exact ties, 1e30 rows, remove_resolved, 1 and 200 models.',
    TRUST + ' remove_resolved only with use_memmap=False; tie order free.',
    'structural invariant + row-coherence oracle at the Fitter.fit boundary', '4/C04')
reg('C05', 'exploration',
    'snapshot+post-condition contract on FitInfo.keep against a set-theoretic reading of docs/select_syntax.rst with IEEE comparisons: expected survivor count, survivors are the prefix of the pre-call arrays with all per-fit arrays cut alike and n_fits equal; idempotence and looser-selector-first compositions; every ordered chi^2 vector of length <=4 (quick) / <=5 (thorough) over {0,1,2.5,7,1e30,inf,NaN}, all selector forms with thresholds mid-way between attained values.',
    TRUST + " ('A', value) two-element form; thresholds never equal an attained value (docs say below, code says <=).",
    'runtime contract with snapshot (icontract) + executable model, exhaustive small scope', '4/C05')
reg('C11', 'exploration',
    'Online snapshot/post-condition on every Fitter.fit (the source object must be bit-identical before/after; a change of fitter state is only recorded) plus metamorphic pairs compared per model name incl. the predicted model fluxes: filter permutations (all 720 of 6 filters in thorough; also with remove_resolved), model-row permutations, flux scaling over 8 decades (scale shifts by -0.5 log10 c), fit histories (all orderings of <=4 preceding fits, sampled 6; per-file, cube/memmap and remove_resolved packages; a second live fitter used in between; sources with the same flags but other errors) bit-identical to a fresh fitter.',
    TRUST + ' Filter permutations re-associate sums: 1e-9/cond on parameters.',
    'snapshot contract + metamorphic history/permutation pairs', '4/C11')
reg('C12', 'exploration',
    'write->read round trips of SED, SEDCube and ConvolvedFluxes over the configuration matrix (axis order x read order x 4 flux units x apertures/uncertainties present or absent x memmap x aperture length unit) with position-encoding values compared cell-wise by wavelength value; other-order read is the exact reversal; cube->SED extraction; post-condition contracts on the readers (requested order honoured, wav*nu=c).',
    TRUST + ' SED files materialise one dummy aperture by design.',
    'round-trip monitor with position-encoding values + reader post-conditions; configuration matrix enumerated', '4/C12')
reg('C14', 'exploration',
    'Post-condition contract on Extinction.get_av against an independent python interpolation (-0.4 chi/chi_V, 0 outside, -0.4 at V within 4 ulp), invariance pairs (chi x c over 16 decades, 5 wavelength units x 2 opacity units), scalar queries, V on a node, tables re-assigned on a live object, round trips through pickle, table and the text-file reader with every column pair (pattern compared with a derived interpolation tolerance; refusal of non-length queries only recorded).',
    TRUST + ' Queries within 1e-12 relative of a table end are a don\'t-care; tables must increase and cover V.',
    'runtime contract + reference interpolation + invariance pairs', '4/C14')
reg('C15', 'exploration',
    'Post-condition contract on convert_flux (patched in every importing namespace) and SED.read(unit_flux=) over the enumerated 5x5 unit matrix x unit-string spellings (legacy, FITS standard, SED.write) against explicit cgs factors; A->B->A identity, A->B->C = A->C; unsupported stored/requested units refused.',
    TRUST + ' rtol 1e-12.',
    'runtime contract + explicit-constant oracle; unit matrix enumerated', '4/C15')
reg('C20', 'exploration',
    'Post-condition contract on Source.from_ascii (every successful parse compared with an independent reading of the line; accepted malformed lines flagged) plus outcome classification at the call boundary (object / EOFError / other error) for every column count 0..3n+6, n<=12, all flag vectors n<=3, every bad flag token in every position; round trips to_ascii, dict, pickle.',
    TRUST + ' Flag tokens are plain decimal integers.',
    'runtime contract + outcome classification, exhaustive over column counts / small flag alphabets', '4/C20')

reg('C06', 'exploration',
    'Post-condition contracts on Filter.rebin and Filter.normalize against an exact-rational (fractions.Fraction) integration of the piecewise-linear response over midpoint bins restricted to the overlap (per bin, and sum = overlap integral), for filters/grids in either storage order incl. constructed edge coincidences and text-file filters; then the contents of convolved/<filter>.fits written by convolve_model_dir (v1 and v2) against sum F R_ref and sqrt(sum (E R_ref)^2) from package truth; flat spectrum returns c.',
    TRUST + ' 1e-9 relative + 1e-12 of sum|R|; strictly monotone grids.',
    'runtime contract + exact-rational reference model; file-content oracle from package truth', '4/C06')
reg('C07', 'exploration',
    'Twin per-file/cube packages from one truth are convolved by the real convolve_model_dir: audit-hook trace of files written, file contents read with plain astropy (row order = parameter table / cube order, row X holds truth_X x R_ref per aperture, FILTWAV, apertures), snapshot/post-condition on ConvolvedFluxes.sort_to_match (rows stay attached to their labels), twin equality, and fits from {v1,v2}x{memmap on,off} against the C01/C02 numeric reference.',
    TRUST + ' rtol 1e-9 (float64) / 1e-5 (float32 storage).',
    'file-effect trace + content oracle + post-condition contract; differential twins', '4/C07')
reg('C08', 'exploration',
    'End-to-end differential monitor: convolve_model_dir -> fit() -> FitInfoFile -> write_parameters run un-mocked on truth-generated packages with photometry synthesised through the reference convolution; rank-1 must be the planted model with the reference fitter\'s (chi^2, A_V, scale) and the planted model\'s own parameter row printed next to it; monitors of C05/C06/C09/C13/C14/C20 attached passively.',
    TRUST + ' Degenerate plants (another model within margin) are regenerated and counted.',
    'end-to-end differential monitor with passive contracts', '4/C08')
reg('C09', 'exploration',
    'Post-condition contract on FitInfo.filter_table (fires inside the three writers and plot_params_1d/2d) against truth parameter rows by model name; what plot_params_1d/2d hand to the axes (histogram polygons, scatter points) is observed and compared with the parameter values of the selected fits; the text written by write_parameters, write_parameter_ranges and extract_parameters is parsed and compared (rank, name, chi2/av/scale, parameter row, n_data, n_fits, min/best/max triples, placeholder) for every parameter-file permutation class, 1..4 columns, additional dictionaries, file/object/list inputs, selectors yielding 0/1/some/all fits.',
    TRUST + ' Printed precision 5e-4; position-encoding parameter values.',
    'runtime contract + output-parsing oracle', '4/C09')
reg('C10', 'exploration',
    'Trace checking: recording probes at Source.from_ascii, Fitter.fit, FitInfo.keep, FitInfoFile.write plus the audit-hook file trace during one real fit() run; offline checker: written names = eligible lines in order once each, each record bit-identical to an independent object-interface fit after the selector, metadata read back unchanged; then every post-processing function with file / object / list inputs (outputs equal, inputs unchanged by canonical snapshots) and sequences of <=3 calls with different selectors on the same in-memory results vs the file.',
    TRUST + ' filter_output not driven on records with zero fits; plot_params only in thorough.',
    'event-trace recording + offline trace checker; snapshot comparison of passed objects', '4/C10')
reg('C13', 'exploration',
    'snapshot+post-condition contracts on ConvolvedFluxes.interpolate, SED.interpolate and SED.interpolate_variable against a python bisect interpolation (exact at knots, linear between, clamp above, identity untouched; the same request gives the same answer later; table re-assigned / re-sorted between calls; tables without apertures or errors; fluxes in mJy/Jy/uJy with errors in another of these, everything compared in mJy; dropped errors are a violation; SEDs in either wavelength order); refusals below the table observed at the call boundary (any exception); requests in au/pc/cm and bare AU numbers against tables stored in au or cm.',
    TRUST + ' Smallest knot requested only in the table\'s own unit; 0.999*a_max clamp band for the plotting variant.',
    'runtime contracts with snapshots + reference interpolation', '4/C13')
reg('C16', 'exploration',
    'Files present afterwards (identified by FILTWAV, not by name), their contents and the returned table for every window (ends below/on/between/above tabulated wavelengths) x a ladder of memory limits reaching every chunk size 1..n_wav (chunking is observed as passes over the SED files, not inferred from the formula of the package), exhaustive for n_wav<=3 (quick) / <=6 (thorough); file set must be identical across limits; windows also in nm/mm/Angstrom, pre-existing convolved/, SEDs in sub-directories; cube packages (with/without uncertainties, aperture-independent and -dependent, named and wavelength filters mixed): a wavelength "filter" (in micron, nm, Angstrom or mm) selects the nearest tabulated slice.',
    TRUST + ' Window end on a wavelength: either; empty window: zero files, empty table or exception.',
    'file-effect trace + content oracle, exhaustive small scope over windows x chunk sizes', '4/C16')
reg('C17', 'exploration',
    'The LineCollection returned by plot(output_dir=None) is checked for every display mode, object and file input: curve count = selected fits x apertures shown, best fit last, and inside each fit\'s block a one-to-one assignment of curves to the shown apertures must exist such that at each fitted wavelength the curve for that filter\'s aperture passes through the stored prediction and through the value recomputed from package truth (aperture interpolation, d^-2, reddening); filters sharing an aperture and >=12 distinct apertures included; generators guarantee that any wrong A_V/scale/aperture moves the curve by >=2% (tolerance 1.2e-3).',
    TRUST + ' Rounded physical constants (KPC offset 2.089e-4, c to 7e-4) accepted; 0.999*a_max clamp band in the default mode.',
    'output-boundary monitor with truth oracle', '4/C17')
reg('C18', 'exploration',
    'Trace checking of filter_output: audit-hook trace of files produced (records in a third file are a violation; a missing output holds no records), records and metadata read back from both outputs; offline: partition of the input, bit-identical records, same fit set-up, order preserved, good <=> best chi^2 (per fitted point, flags 1 and 4 counted by the harness) below the threshold; chi/cpd, auto/explicit/mixed names, file/list input, n_data=1, NaN/inf/tied best values, NaN-suffix records.',
    TRUST + ' Thresholds never equal an attained value; every record has a best fit.',
    'event trace + offline conservation/partition checker', '4/C18')
reg('C19', 'fault_enumeration',
    'Every truncation offset of fit output files written by the real fit() (1..4 records, with/without predicted fluxes) is read back: yielded records must be a bit-identical prefix of the complete records (record ends observed at the FitInfoFile.write boundary, no layout knowledge), then a clean end or an exception; records from a few hundred bytes to tens of kB. Writer-side faults: ENOSPC after N bytes through a proxy handle (also over an existing longer file and over an earlier run of the same job; INCONCLUSIVE if the fault was never injected), SIGKILL of a fit() process, and an strace of the output fd (sequential write()s only) in the thorough tier.',
    TRUST + ' A crash leaves a byte prefix (supported by the strace observation).',
    'fault injection (truncation enumeration, ENOSPC proxy, SIGKILL, strace) + prefix oracle', '4/C19')
