"""
File-effect trace: one sys.addaudithook (cannot be removed, so it is gated by a flag)
recording every path opened for writing / removed / renamed / created while armed.
It is how "exactly these files were written" is *observed* rather than inferred from a
directory listing after the fact.
"""
from __future__ import annotations

import os
import sys

_state = {'armed': False, 'events': [], 'installed': False}


def _hook(event, args):
    if not _state['armed']:
        return
    try:
        if event == 'open':
            path, mode, flags = args[0], args[1], args[2]
            w = False
            if isinstance(mode, str):
                w = any(c in mode for c in 'wax+')
            elif isinstance(flags, int):
                w = bool(flags & (os.O_WRONLY | os.O_RDWR | os.O_CREAT | os.O_TRUNC | os.O_APPEND))
            if w and isinstance(path, (str, bytes)):
                _state['events'].append(('write', _abs(path)))
        elif event in ('os.remove', 'os.unlink'):
            _state['events'].append(('remove', _abs(args[0])))
        elif event == 'os.rename':
            _state['events'].append(('rename', _abs(args[0]), _abs(args[1])))
        elif event == 'os.mkdir':
            _state['events'].append(('mkdir', _abs(args[0])))
        elif event == 'os.truncate':
            _state['events'].append(('truncate', os.fsdecode(args[0]) if isinstance(args[0], (str, bytes)) else repr(args[0])))
    except Exception:
        pass


def _abs(p):
    """the path as it is meant at the time of the event (a relative name belongs to the current directory of that moment)"""
    return os.path.abspath(os.fsdecode(p))


def install():
    if not _state['installed']:
        sys.addaudithook(_hook)
        _state['installed'] = True


class trace(object):
    """with effects.trace() as t: ...; t.written(under=dir) -> sorted set of paths opened for writing"""

    def __enter__(self):
        install()
        self._start = len(_state['events'])
        self._prev = _state['armed']
        _state['armed'] = True
        return self

    def __exit__(self, *exc):
        _state['armed'] = self._prev
        self.events = _state['events'][self._start:]
        if not self._prev:
            del _state['events'][:]
        return False

    def written(self, under=None):
        out = []
        for e in self.events:
            if e[0] == 'write':
                p = os.path.abspath(e[1])
                if under is None or p.startswith(os.path.abspath(under) + os.sep):
                    out.append(p)
        return out

    def produced(self, under=None):
        """paths that exist now and were opened for writing, or were the target of a rename, during the trace
        (a temporary file renamed into place counts as its final name)"""
        out = set()
        for e in self.events:
            p = None
            if e[0] == 'write':
                p = os.path.abspath(e[1])
            elif e[0] == 'rename':
                p = os.path.abspath(e[2])
            if p and os.path.exists(p) and (under is None or p.startswith(os.path.abspath(under) + os.sep)):
                out.add(p)
        return sorted(out)

    def removed(self, under=None):
        return [os.path.abspath(e[1]) for e in self.events if e[0] == 'remove' and
                (under is None or os.path.abspath(e[1]).startswith(os.path.abspath(under) + os.sep))]
