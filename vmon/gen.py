"""
Workload generators: extinction laws, sources, flux grids, fitters.
Everything is drawn from the numpy Generator handed in, so a (seed, shard, case
index) triple reproduces a case; witnesses also carry the literal inputs.
"""
from __future__ import annotations

import contextlib
import io
import os

import numpy as np
from astropy import units as u

from . import pkg
from . import oracles as O


def loguniform(rng, lo, hi, size=None):
    return 10.0 ** rng.uniform(np.log10(lo), np.log10(hi), size)


# ---------------------------------------------------------------- laws ----

def make_law_arrays(rng, n=None, lo=None, hi=None):
    """opacity table in increasing wavelength covering 0.55 micron"""
    if n is None:
        n = int(rng.choice([2, 3, 5, 12, 40, 200]))
    if lo is None:
        lo = float(loguniform(rng, 0.05, 0.5))
    if hi is None:
        hi = float(loguniform(rng, 0.6, 2000.0))
    if n == 2:
        wav = np.array([lo, hi])
    else:
        wav = np.sort(np.concatenate([[lo, hi], loguniform(rng, lo, hi, n - 2)]))
        wav = np.unique(wav)
    slope = rng.uniform(-2.5, -0.3)
    chi = 10.0 ** rng.uniform(-3, 5) * (wav / 0.55) ** slope * 10.0 ** rng.uniform(-0.3, 0.3, len(wav))
    return wav, chi


def build_law(wav_um, chi, wav_unit=None):
    from sedfitter.extinction import Extinction
    law = Extinction()
    law.wav = np.asarray(wav_um, float) * u.micron
    if wav_unit is not None:
        law.wav = law.wav.to(wav_unit)
    law.chi = np.asarray(chi, float) * u.cm ** 2 / u.g
    return law


# ------------------------------------------------------------- sources ----

def build_source(name, valid, flux, error, x=0.0, y=0.0):
    from sedfitter.source import Source
    s = Source()
    s.name = name
    s.x = float(x)
    s.y = float(y)
    s.valid = np.array(valid, dtype=int)
    s.flux = np.array(flux, dtype=float)
    s.error = np.array(error, dtype=float)
    return s


def integerise(valid, flux, error, both=False):
    """whole-number photometry for a flag vector (legal input: the setters take any 1-d sequence): fluxes become integers >= 1
    (flag 4: any integer), and with both=True the errors too (>= 1; confidences of limits become 1)"""
    valid = np.asarray(valid)
    f = np.array(flux, float)
    e = np.array(error, float)
    lin = (valid == 1) | (valid == 2) | (valid == 3) | ((valid == 9) & (f > 0))      # (a positive plot-only value stays positive)
    f_old = f.copy()
    f[lin] = np.clip(np.round(f[lin]), 1.0, 1e9)          # (1e9: representable in every integer container used, int32 included)
    one = (valid == 1) & (f_old > 0)
    e[one] = e[one] * (f[one] / f_old[one])               # the relative error of a measurement stays what the generator drew (1e-6 .. 3)
    f[~lin] = np.clip(np.round(f[~lin]), -1e9, 1e9)
    if both:
        fit = (valid == 1) | (valid == 4)
        e[fit] = np.clip(np.round(e[fit]), 1.0, 1e9)
        e[(valid == 2) | (valid == 3)] = 1.0
        e[(valid == 0) | (valid == 9)] = np.clip(np.round(e[(valid == 0) | (valid == 9)]), -1e9, 1e9)
    return f, e


def as_container(kind, arr):
    """the same numbers in another legal container (None/'f8': float64 array)"""
    a = np.asarray(arr, float)
    if kind in (None, 'f8'):
        return np.array(a, dtype=float)
    if kind == 'i8':
        return np.array(np.round(a), dtype=np.int64)
    if kind == 'i4':
        return np.array(np.round(a), dtype=np.int32)
    if kind == 'ilist':
        return [int(round(float(x))) for x in a]
    if kind == 'ituple':
        return tuple(int(round(float(x))) for x in a)
    if kind == 'list':
        return [float(x) for x in a]
    if kind == 'tuple':
        return tuple(float(x) for x in a)
    raise ValueError(kind)


def build_source_as(name, valid, flux, error, fkind=None, ekind=None, vkind=None, x=0.0, y=0.0):
    """Source whose arrays are given in other legal containers / dtypes (integer arrays, lists, tuples)"""
    from sedfitter.source import Source
    s = Source()
    s.name = name
    s.x = float(x)
    s.y = float(y)
    s.valid = list(int(v) for v in valid) if vkind == 'list' else np.array(valid, dtype=int)
    s.flux = as_container(fkind, flux)
    s.error = as_container(ekind, error)
    return s


def source_line(name, valid, flux, error, x=0.0, y=0.0):
    cols = [name, repr(float(x)), repr(float(y))] + ['%d' % v for v in valid]
    for f, e in zip(flux, error):
        cols += [repr(float(f)), repr(float(e))]
    return ' '.join(cols)


def photometry_for(rng, valid, pred_log, wild=False):
    """(flux, error) for a flag vector, near the predicted log10 fluxes `pred_log`
    (one per band) or, with wild=True, anywhere over 60 decades."""
    n = len(valid)
    flux = np.zeros(n)
    err = np.zeros(n)
    for j, v in enumerate(valid):
        base = rng.uniform(-30, 30) if wild else pred_log[j] + rng.normal(0, rng.choice([0.001, 0.05, 0.5]))
        base = float(np.clip(base, -200.0, 200.0))      # keep 10**base positive and finite
        if v == 1:
            rel = float(loguniform(rng, 1e-6, 3.0)) if rng.random() < 0.3 else float(loguniform(rng, 0.01, 0.3))
            flux[j] = 10.0 ** base
            err[j] = flux[j] * rel
        elif v == 4:
            flux[j] = base
            err[j] = float(loguniform(rng, 1e-6, 1.0)) if rng.random() < 0.3 else float(loguniform(rng, 0.004, 0.15))
        elif v in (2, 3):
            flux[j] = 10.0 ** (base + rng.choice([-0.3, -0.01, 0.01, 0.3]) * rng.random())
            err[j] = float(rng.choice([0.0, 1.0, rng.uniform(0.01, 0.99), rng.uniform(0.5, 0.999999)]))
        else:  # 0, 9: ignored; placeholders as in the docs' example
            if rng.random() < 0.5:
                flux[j], err[j] = -999.9, -999.9
            else:
                flux[j], err[j] = 10.0 ** base, 10.0 ** base * 0.1
    return flux, err


def flags_with_fit(rng, n, k, min_fit=2, pool=(0, 1, 1, 1, 2, 3, 4, 4, 9)):
    """random flag vector with >= min_fit fitted points (1/4) whose k are not all equal"""
    for _ in range(200):
        v = rng.choice(pool, n)
        fit = (v == 1) | (v == 4)
        if fit.sum() >= min_fit and (min_fit < 2 or np.ptp(np.asarray(k)[fit]) > 1e-3):
            return v
    v = np.ones(n, int)
    return v


# ------------------------------------------------------- grid packages ----

def band_wavelengths(rng, n):
    w = np.sort(loguniform(rng, 0.3, 500.0, n))
    # keep bands distinct by >1%
    for i in range(1, n):
        if w[i] < w[i - 1] * 1.01:
            w[i] = w[i - 1] * 1.02
    rng.shuffle(w)
    return w


def model_names(rng, n, style=None):
    style = style or rng.choice(['num', 'lex', 'mixed'])
    if style == 'num':
        names = ['model_%04d' % i for i in range(n)]
    elif style == 'lex':          # lexical order != numeric order
        names = ['m%d' % (i * 7 + 3) for i in range(n)]
    else:
        alpha = 'ZYXabc019_'
        names = []
        while len(names) < n:
            nm = ''.join(rng.choice(list(alpha), rng.integers(3, 12)))
            if nm not in names:
                names.append(nm)
    return names


def conv_grid(rng, n_models, n_bands, n_ap=1, cumulative=None, decades=3.0):
    """positive convolved fluxes [m, a, f] (mJy)"""
    base = 10.0 ** rng.uniform(-decades, decades, (n_models, 1, n_bands))
    if n_ap == 1:
        return base
    if cumulative is None:
        cumulative = rng.random() < 0.5
    if cumulative:
        inc = rng.uniform(0.05, 1.0, (n_models, n_ap, n_bands))
        prof = np.cumsum(inc, axis=1)
    else:
        prof = rng.uniform(0.2, 2.0, (n_models, n_ap, n_bands))
    return base * prof


def aperture_table(rng, n_ap):
    a = np.sort(loguniform(rng, 10.0, 1e6, n_ap))
    for i in range(1, n_ap):
        if a[i] < a[i - 1] * 1.05:
            a[i] = a[i - 1] * 1.1
    return a


def write_grid_v1(model_dir, names, band_names, band_wav, grid, errgrid=None, apertures=None,
                  aperture_dependent=False, logd_step=0.02, fmt='D', table_order=None,
                  params=None, gz=False, flux_unit='mJy'):
    """per-file package with harness-written convolved files (no SEDs needed)"""
    os.makedirs(os.path.join(model_dir, 'convolved'), exist_ok=True)
    pkg.write_conf(model_dir, aperture_dependent=aperture_dependent, logd_step=logd_step, version=1)
    order = list(range(len(names))) if table_order is None else list(table_order)
    params = params or {'par1': np.arange(len(names), dtype=float)}
    pkg.write_parameters(model_dir, [names[i] for i in order],
                         {k: np.asarray(v)[order] for k, v in params.items()})
    errgrid = grid * 0.01 if errgrid is None else errgrid
    per_band = isinstance(apertures, (list, tuple))          # one aperture table per band (each convolved file carries its own)
    for f, (bn, bw) in enumerate(zip(band_names, band_wav)):
        fu = flux_unit[f] if isinstance(flux_unit, (list, tuple)) else flux_unit      # (every convolved file declares its own unit)
        scale_ = {'mJy': 1.0, 'Jy': 1e-3, 'uJy': 1e3}[fu]       # the truth grid is in mJy; the file may store another unit
        pkg.write_convolved_file(os.path.join(model_dir, 'convolved', bn + '.fits'),
                                 [names[i] for i in order], apertures[f] if per_band else apertures,
                                 grid[order, :, f] * scale_, errgrid[order, :, f] * scale_, bw, fmt=fmt, gz=gz, unit=fu)
    return order


def write_grid_v2(model_dir, names, band_names, band_wav, grid, errgrid=None, apertures=None,
                  aperture_dependent=False, logd_step=0.02, fmt='D', cube_wav=None, cube=None,
                  cube_unc=None, params=None, cube_desc=False, cube_dtype='f8'):
    """cube package: flux.fits (required by Models.read) + harness-written convolved files"""
    os.makedirs(os.path.join(model_dir, 'convolved'), exist_ok=True)
    pkg.write_conf(model_dir, aperture_dependent=aperture_dependent, logd_step=logd_step, version=2)
    params = params or {'par1': np.arange(len(names), dtype=float)}
    pkg.write_parameters(model_dir, names, params)
    n_ap = grid.shape[1]
    if cube is None:
        cube_wav = np.array([1.0, 10.0]) if cube_wav is None else cube_wav
        cube = np.ones((len(names), n_ap, len(cube_wav)))
        cube_unc = cube * 0.1
    pkg.write_cube_file(os.path.join(model_dir, 'flux.fits'), names, cube_wav, apertures, cube,
                        cube_unc, descending_wav=cube_desc, dtype=cube_dtype)
    errgrid = grid * 0.01 if errgrid is None else errgrid
    for f, (bn, bw) in enumerate(zip(band_names, band_wav)):
        if bn is None:
            continue
        pkg.write_convolved_file(os.path.join(model_dir, 'convolved', bn + '.fits'),
                                 names, apertures, grid[:, :, f], errgrid[:, :, f], bw, fmt=fmt)


def make_fitter(filter_names, apertures_arcsec, model_dir, law, av_range, distance_range_kpc=(1.0, 2.0),
                use_memmap=True, remove_resolved=False, distance_unit=None):
    from sedfitter.fit import Fitter
    dr = np.array(distance_range_kpc, float) * u.kpc
    if distance_unit is not None:
        dr = dr.to(distance_unit)
    return Fitter(list(filter_names), np.asarray(apertures_arcsec, float) * u.arcsec, model_dir,
                  extinction_law=law, av_range=tuple(av_range), distance_range=dr,
                  use_memmap=use_memmap, remove_resolved=remove_resolved)


def av_ranges(rng, typical):
    """A_V ranges: wide, one-sided clamping either side, two-sided narrow, lo==hi, negative"""
    t = float(typical)
    return [(-1e3, 1e3), (t + 0.5 + rng.random(), t + 40.0), (t - 40.0, t - 0.5 - rng.random()),
            (t - 0.3 * rng.random(), t + 0.3 * rng.random()),
            (round(t + rng.normal(), 2),) * 2, (-30.0, -1.0 - rng.random()), (0.0, 40.0)]
