"""
Shared by C06, C07, C08: random SED packages + filters, reference convolution from
truth with the exact-rational rebin oracle, and comparison with the files written by
convolve_model_dir (read back with plain astropy.io.fits, not with the code under test).
"""
from __future__ import annotations

import os

import numpy as np
from astropy import units as u
from astropy.io import fits

from . import gen, pkg
from . import oracles as O


def make_truth(rng, n_models, n_ap, n_wav, names=None, wav_range=(0.05, 2000.0), f32=False, params=None):
    wav = np.sort(gen.loguniform(rng, wav_range[0], wav_range[1], n_wav))
    while np.any(np.diff(wav) <= 1e-4 * wav[:-1]) or wav[-1] < 1.3 * wav[0]:          # (distinct points; a grid spanning at least 30%)
        wav = np.sort(gen.loguniform(rng, wav_range[0], wav_range[1], n_wav))
    names = names or gen.model_names(rng, n_models)
    aps = gen.aperture_table(rng, n_ap) if n_ap > 1 else None
    base = 10.0 ** rng.uniform(-2, 3, (n_models, 1, n_wav))
    if n_ap > 1:
        prof = np.cumsum(rng.uniform(0.05, 1.0, (n_models, n_ap, n_wav)), axis=1)
        flux = base * prof
    else:
        flux = base
    err = flux * rng.uniform(0.01, 0.2, flux.shape)
    if f32:
        wav, flux, err = pkg.r32(wav), pkg.r32(flux), pkg.r32(err)
        if aps is not None:
            aps = pkg.r32(aps)
    if params is None:
        params = {'par1': np.arange(n_models) * 10.0 + 1.0}
    return pkg.Truth(names, wav, flux, err, apertures=aps, params=params)


def make_filter_arrays(rng, truth_wav, kind=None):
    """(wav_um ascending, response>=0, central) relative to an SED wavelength grid"""
    lo, hi = truth_wav[0], truth_wav[-1]
    kind = kind or str(rng.choice(['inside', 'inside', 'partial-lo', 'partial-hi', 'contains', 'narrow']))
    if hi <= lo * 1.12:
        # an SED grid spanning less than 12% in wavelength (two or three close points): the ends of the filter are laid out as
        # fractions of the span instead of margins of a few percent
        span = hi - lo
        a, b = {'inside': (lo + 0.2 * span, lo + 0.8 * span), 'partial-lo': (lo - 0.5 * span, lo + 0.6 * span),
                'partial-hi': (lo + 0.4 * span, hi + 0.5 * span), 'contains': (lo - 0.5 * span, hi + 0.5 * span)}.get(kind, (lo + 0.3 * span, lo + 0.5 * span))
    elif kind == 'inside':
        a, b = np.sort(gen.loguniform(rng, lo * 1.01, hi * 0.99, 2))
    elif kind == 'partial-lo':
        a, b = lo * rng.uniform(0.2, 0.9), float(gen.loguniform(rng, lo * 1.05, hi))
    elif kind == 'partial-hi':
        a, b = float(gen.loguniform(rng, lo, hi * 0.95)), hi * rng.uniform(1.1, 4)
    elif kind == 'contains':
        a, b = lo * rng.uniform(0.2, 0.9), hi * rng.uniform(1.1, 4)
    else:   # narrower than one SED bin
        i = int(rng.integers(len(truth_wav) - 1))
        a = truth_wav[i] + (truth_wav[i + 1] - truth_wav[i]) * rng.uniform(0.1, 0.4)
        b = truth_wav[i] + (truth_wav[i + 1] - truth_wav[i]) * rng.uniform(0.5, 0.9)
    if b <= a * 1.0001:
        b = a * 1.05
    n = int(rng.choice([2, 3, 5, 10, 25, 60]))
    w = np.sort(np.concatenate([[a, b], rng.uniform(a, b, n - 2)])) if n > 2 else np.array([a, b])
    w = np.unique(w)
    resp = rng.uniform(0.0, 1.0, len(w))
    resp[rng.random(len(w)) < 0.15] = 0.0
    if rng.random() < 0.5:
        resp[0] = resp[-1] = 0.0
    if not np.any(resp > 0):
        resp[len(resp) // 2] = 1.0
    return w, resp, float(np.sqrt(a * b)), kind


def build_filter(name, wav_um, resp, central, descending_nu=False, normalize=True, nu_unit=None, cw_unit=None):
    """Filter object built in memory; storage order: nu ascending (wav descending) or the reverse;
    frequencies / central wavelength may be given in other units (GHz, THz; nm, Angstrom, mm)"""
    from sedfitter.filter import Filter
    nu = pkg.C_UM_HZ / np.asarray(wav_um, float)       # descending in nu for ascending wav
    r = np.asarray(resp, float)
    if not descending_nu:
        nu, r = nu[::-1], r[::-1]
    f = Filter()
    f.name = name
    f.central_wavelength = (central * u.micron) if cw_unit is None else (central * u.micron).to(cw_unit)
    f.nu = (nu.copy() * u.Hz) if nu_unit is None else (nu.copy() * u.Hz).to(nu_unit)
    f.response = r.copy()
    if normalize:
        f.normalize()
    return f


def reference_response(filt, nu_grid):
    """exact R_i as floats for a (possibly normalised) repo Filter object on a frequency grid"""
    fr = O.rebin_exact(np.asarray(filt.nu.to(u.Hz).value, float), np.asarray(filt.response, float), nu_grid)
    return np.array([float(x) for x in fr])


def reference_convolution(truth, filt, nu_grid=None):
    """(flux[m,a], err[m,a]) = sum_i F R_i, sqrt(sum (E R_i)^2) on the package's ascending-frequency grid"""
    nu_asc = truth.nu[::-1] if nu_grid is None else nu_grid
    R = reference_response(filt, nu_asc)
    F = truth.flux[:, :, ::-1]
    E = truth.err[:, :, ::-1]
    flux = np.sum(F * R[None, None, :], axis=2)
    err = np.sqrt(np.sum((E * R[None, None, :]) ** 2, axis=2))
    return flux, err, R


def _to_mjy(unit_string):
    if unit_string in (None, ''):
        return 1.0
    try:
        return float((1.0 * u.Unit(unit_string)).to(u.mJy).value)
    except Exception:
        try:
            return float((1.0 * u.Unit(unit_string.lower().replace('mjy', 'mJy').replace('ujy', 'uJy').replace('jy', 'Jy') if unit_string.lower() in ('mjy', 'jy', 'ujy') else unit_string)).to(u.mJy).value)
        except Exception:
            return float('nan')          # an unreadable unit: every comparison fails, which is the right verdict


def read_convolved_plain(path):
    """read a convolved-flux file with plain astropy.io.fits"""
    if not os.path.exists(path) and os.path.exists(path + '.gz'):
        path += '.gz'
    with fits.open(path) as h:
        hdr = h[0].header
        t = h['CONVOLVED FLUXES'].data
        names = [str(x).strip() for x in t['MODEL_NAME']]
        flux = np.array(t['TOTAL_FLUX'], float)
        err = np.array(t['TOTAL_FLUX_ERR'], float)
        if flux.ndim == 1:
            flux, err = flux[:, None], err[:, None]
        funit = h['CONVOLVED FLUXES'].columns['TOTAL_FLUX'].unit
        eunit = h['CONVOLVED FLUXES'].columns['TOTAL_FLUX_ERR'].unit
        # values are returned in mJy whatever unit the file declares (a missing unit means mJy, as for the package's reader)
        flux = flux * _to_mjy(funit)
        err = err * _to_mjy(eunit)
        try:
            ap = np.array(h['APERTURES'].data['APERTURE'], float)
            apunit = h['APERTURES'].columns['APERTURE'].unit
        except KeyError:
            ap, apunit = None, None
        return dict(filtwav=hdr.get('FILTWAV'), nmodels=hdr.get('NMODELS'), nap=hdr.get('NAP'), names=names,
                    flux=flux, err=err, unit=funit, apertures=ap, aperture_unit=apunit)


def float32_edge_tolerance(truth, filt, rel_edge=2.4e-7):
    """absolute tolerance on (flux[m,a], err[m,a]) for packages stored as float32 (1E, the documented format):
    the code then forms the frequency grid and its bin mid-points in float32, which moves every bin edge by up to
    ~1.2e-7 relative; an edge moved by d changes R_i by at most max(response)*d, on both sides of the bin.
    (For filters that are narrow compared with the SED spacing this is far larger than 1e-7 of the flux.)"""
    nu = truth.nu[::-1]
    fnu = np.asarray(filt.nu.to(u.Hz).value, float)
    rmax = float(np.max(filt.response))
    lo, hi = fnu.min(), fnu.max()
    n = len(nu)
    e1 = np.concatenate([[nu[0]], 0.5 * (nu[:-1] + nu[1:])])
    e2 = np.concatenate([0.5 * (nu[:-1] + nu[1:]), [nu[-1]]])
    touch = (e2 >= lo * (1 - 1e-6)) & (e1 <= hi * (1 + 1e-6))
    dR = np.where(touch, 2 * rel_edge * nu * rmax, 0.0)
    F = np.abs(truth.flux[:, :, ::-1])
    E = np.abs(truth.err[:, :, ::-1])
    return np.sum(F * dR[None, None, :], axis=2), np.sum(E * dR[None, None, :], axis=2)
