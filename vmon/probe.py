"""
Attach pre/post/snapshot contracts to the real callables of the code under test
(icontract underneath).  Conditions are *recording* conditions: they evaluate the
oracle, report through ctx.violation(...) and return True, so a violation never
aborts the execution it observes (and never raises into the code under test).

Patching is done on the defining class / module: methods are looked up on the class
at call time, so one patch covers every `from x import Class` reference.  Module
level functions imported by name elsewhere are patched in every namespace listed.
"""
from __future__ import annotations

import copy
import sys

import icontract
import numpy as np


class ProbeError(Exception):
    pass


MONITOR_ERRORS = []      # failures of the monitors themselves (never of the code under test): reported as INCONCLUSIVE


def _adapt(cond, fn, label, default=True):
    """Bind a condition to the real callable *by position* and guard it.

    icontract passes arguments to conditions by name.  The conditions in props/*.py are written with the parameter
    names the package uses today; if a parameter of the package is renamed (a behaviour-preserving refactor: all
    callers are positional) a name-bound condition would make icontract raise inside the observed call, which would
    then look like a failure of the code under test.  So an adapter is generated whose parameter names are taken
    from the *real* signature (position i of the condition <-> position i of the function), and which never lets an
    exception of the monitor escape: monitor failures are recorded in MONITOR_ERRORS and make the run inconclusive."""
    import inspect
    cparams = list(inspect.signature(cond).parameters)
    special = [p for p in cparams if p in ('OLD', 'result')]
    k = len(cparams) - len(special)
    rparams = [p.name for p in inspect.signature(fn).parameters.values()
               if p.kind in (p.POSITIONAL_ONLY, p.POSITIONAL_OR_KEYWORD)]
    if k > len(rparams) or any(n in ('OLD', 'result') for n in rparams[:k]):
        MONITOR_ERRORS.append('%s: cannot bind monitor (%d leading parameters needed, callable has %r)' % (label, k, rparams))
        return None
    names = rparams[:k] + special
    # call the condition in its own parameter order (OLD/result wherever it declared them)
    callargs = []
    lead = iter(rparams[:k])
    for p in cparams:
        callargs.append(p if p in ('OLD', 'result') else next(lead))
    src = 'def _adapter(%s):\n    return _guard(_cond, _label, _default, (%s,))\n' % (', '.join(names), ', '.join(callargs))

    def _guard(c, lab, dflt, vals):
        try:
            return c(*vals)
        except Exception as exc:      # a failure of the monitor, not of the code under test
            if len(MONITOR_ERRORS) < 20:
                import traceback
                MONITOR_ERRORS.append('%s: monitor raised %s: %s | %s' % (lab, type(exc).__name__, exc, traceback.format_exc()[-400:]))
            return dflt
    ns = {'_guard': _guard, '_cond': cond, '_label': label, '_default': default}
    exec(src, ns)
    return ns['_adapter']


def attach(owner, name, ensure=None, snapshot=None, require=None, also=()):
    """Replace owner.<name> by a contract-checked callable.

    ensure(…, result[, OLD])   post-condition (leading parameters correspond by position to the function's)
    snapshot(…)                captured before the call, available as OLD.S
    require(…)                 pre-condition
    also                       other namespaces (modules) that imported the function by name
    """
    raw = owner.__dict__[name] if isinstance(owner, type) else getattr(owner, name)
    kind = None
    fn = raw
    if isinstance(raw, classmethod):
        kind, fn = classmethod, raw.__func__
    elif isinstance(raw, staticmethod):
        kind, fn = staticmethod, raw.__func__
    label = '%s.%s' % (getattr(owner, '__name__', owner), name)
    wrapped = fn
    try:
        if ensure is not None:
            c = _adapt(ensure, fn, label + ':ensure')
            if c is None:
                return raw
            wrapped = icontract.ensure(c, error=ProbeError)(wrapped)
        if snapshot is not None:
            c = _adapt(snapshot, fn, label + ':snapshot', default=None)
            if c is None:
                return raw
            wrapped = icontract.snapshot(c, name='S')(wrapped)
        if require is not None:
            c = _adapt(require, fn, label + ':require')
            if c is None:
                return raw
            wrapped = icontract.require(c, error=ProbeError)(wrapped)
    except Exception as exc:
        MONITOR_ERRORS.append('%s: could not attach monitor: %r' % (label, exc))
        return raw
    new = kind(wrapped) if kind else wrapped
    setattr(owner, name, new)
    for ns in also:
        if getattr(ns, name, None) is raw:
            setattr(ns, name, new)
    return raw


def detach(owner, name, raw, also=()):
    cur = owner.__dict__[name] if isinstance(owner, type) else getattr(owner, name)
    setattr(owner, name, raw)
    for ns in also:
        if getattr(ns, name, None) is cur:
            setattr(ns, name, raw)


# ---------------------------------------------------------------- canon ----

def arr(a):
    """independent float/str copy of an array-like (Quantity -> value)"""
    if a is None:
        return None
    if hasattr(a, 'unit') and hasattr(a, 'value'):
        a = a.value
    return np.array(a, copy=True)


def same(a, b):
    """bit-level equality of two arrays, NaN-aware (shape and kind must match)"""
    if a is None or b is None:
        return a is None and b is None
    a = np.asarray(a)
    b = np.asarray(b)
    if a.shape != b.shape:
        return False
    if a.dtype.kind in 'US' or b.dtype.kind in 'US':
        return bool(np.all(np.char.strip(a.astype(str)) == np.char.strip(b.astype(str))))
    if a.dtype.kind == 'f' or b.dtype.kind == 'f':
        return bool(np.array_equal(a.astype(float), b.astype(float), equal_nan=True))
    return bool(np.array_equal(a, b))


def canon_source(s):
    return {'name': s.name, 'x': float(s.x), 'y': float(s.y), 'valid': arr(s.valid),
            'flux': arr(s.flux), 'error': arr(s.error)}


def canon_info(info, with_source=True):
    d = {'av': arr(info.av), 'sc': arr(info.sc), 'chi2': arr(info.chi2),
         'model_name': arr(info.model_name), 'model_id': arr(info.model_id),
         'model_fluxes': arr(info.model_fluxes)}
    if with_source and info.source is not None:
        d['source'] = canon_source(info.source)
    return d


def same_canon(a, b, skip=()):
    diffs = []
    for k in a:
        if k in skip:
            continue
        if k == 'source':
            for kk in a[k]:
                va, vb = a[k][kk], b.get(k, {}).get(kk)
                ok = same(va, vb) if isinstance(va, np.ndarray) else (va == vb)
                if not ok:
                    diffs.append('source.' + kk)
        elif not same(a[k], b.get(k)):
            diffs.append(k)
    return diffs


def inv_fi(info):
    """INV-FI: per-fit arrays have one length; chi2 non-decreasing with NaN only as a
    suffix; model_id has no duplicates.  Returns a list of broken clauses."""
    bad = []
    n = len(info.chi2)
    for k in ('av', 'sc', 'model_name', 'model_id'):
        if len(getattr(info, k)) != n:
            bad.append('len(%s)=%d != len(chi2)=%d' % (k, len(getattr(info, k)), n))
    if info.model_fluxes is not None and len(info.model_fluxes) != n:
        bad.append('len(model_fluxes)=%d != %d' % (len(info.model_fluxes), n))
    c = np.asarray(info.chi2, float)
    nan = np.isnan(c)
    if nan.any() and not nan[np.argmax(nan):].all():
        bad.append('NaN chi2 not a suffix')
    f = c[~nan]
    if f.size > 1 and np.any(f[1:] < f[:-1]):
        bad.append('chi2 decreasing')
    ids = np.asarray(info.model_id)
    if len(np.unique(ids)) != len(ids):
        bad.append('duplicate model_id')
    return bad
