"""
Attach pre/post/snapshot contracts to the real callables of the code under test
(icontract underneath).  Conditions are *recording* conditions: they evaluate the
oracle, report through ctx.violation(...) and return True, so a violation never
aborts the execution it observes (and never raises into the code under test).

Patching is done on the defining class / module: methods are looked up on the class
at call time, so one patch covers every `from x import Class` reference.  Module
level functions imported by name elsewhere are patched in every namespace listed.
"""
from __future__ import annotations

import copy
import sys

import icontract
import numpy as np


class ProbeError(Exception):
    pass


def attach(owner, name, ensure=None, snapshot=None, require=None, also=()):
    """Replace owner.<name> by a contract-checked callable.

    ensure(…, result[, OLD])   post-condition (argument names must match the function's)
    snapshot(…)                captured before the call, available as OLD.S
    require(…)                 pre-condition
    also                       other namespaces (modules) that imported the function by name
    """
    raw = owner.__dict__[name] if isinstance(owner, type) else getattr(owner, name)
    kind = None
    fn = raw
    if isinstance(raw, classmethod):
        kind, fn = classmethod, raw.__func__
    elif isinstance(raw, staticmethod):
        kind, fn = staticmethod, raw.__func__
    wrapped = fn
    if ensure is not None:
        wrapped = icontract.ensure(ensure, error=ProbeError)(wrapped)
    if snapshot is not None:
        wrapped = icontract.snapshot(snapshot, name='S')(wrapped)
    if require is not None:
        wrapped = icontract.require(require, error=ProbeError)(wrapped)
    new = kind(wrapped) if kind else wrapped
    setattr(owner, name, new)
    for ns in also:
        if getattr(ns, name, None) is raw:
            setattr(ns, name, new)
    return raw


def detach(owner, name, raw, also=()):
    cur = owner.__dict__[name] if isinstance(owner, type) else getattr(owner, name)
    setattr(owner, name, raw)
    for ns in also:
        if getattr(ns, name, None) is cur:
            setattr(ns, name, raw)


# ---------------------------------------------------------------- canon ----

def arr(a):
    """independent float/str copy of an array-like (Quantity -> value)"""
    if a is None:
        return None
    if hasattr(a, 'unit') and hasattr(a, 'value'):
        a = a.value
    return np.array(a, copy=True)


def same(a, b):
    """bit-level equality of two arrays, NaN-aware (shape and kind must match)"""
    if a is None or b is None:
        return a is None and b is None
    a = np.asarray(a)
    b = np.asarray(b)
    if a.shape != b.shape:
        return False
    if a.dtype.kind in 'US' or b.dtype.kind in 'US':
        return bool(np.all(np.char.strip(a.astype(str)) == np.char.strip(b.astype(str))))
    if a.dtype.kind == 'f' or b.dtype.kind == 'f':
        return bool(np.array_equal(a.astype(float), b.astype(float), equal_nan=True))
    return bool(np.array_equal(a, b))


def canon_source(s):
    return {'name': s.name, 'x': float(s.x), 'y': float(s.y), 'valid': arr(s.valid),
            'flux': arr(s.flux), 'error': arr(s.error)}


def canon_info(info, with_source=True):
    d = {'av': arr(info.av), 'sc': arr(info.sc), 'chi2': arr(info.chi2),
         'model_name': arr(info.model_name), 'model_id': arr(info.model_id),
         'model_fluxes': arr(info.model_fluxes)}
    if with_source and info.source is not None:
        d['source'] = canon_source(info.source)
    return d


def same_canon(a, b, skip=()):
    diffs = []
    for k in a:
        if k in skip:
            continue
        if k == 'source':
            for kk in a[k]:
                va, vb = a[k][kk], b.get(k, {}).get(kk)
                ok = same(va, vb) if isinstance(va, np.ndarray) else (va == vb)
                if not ok:
                    diffs.append('source.' + kk)
        elif not same(a[k], b.get(k)):
            diffs.append(k)
    return diffs


def inv_fi(info):
    """INV-FI: per-fit arrays have one length; chi2 non-decreasing with NaN only as a
    suffix; model_id has no duplicates.  Returns a list of broken clauses."""
    bad = []
    n = len(info.chi2)
    for k in ('av', 'sc', 'model_name', 'model_id'):
        if len(getattr(info, k)) != n:
            bad.append('len(%s)=%d != len(chi2)=%d' % (k, len(getattr(info, k)), n))
    if info.model_fluxes is not None and len(info.model_fluxes) != n:
        bad.append('len(model_fluxes)=%d != %d' % (len(info.model_fluxes), n))
    c = np.asarray(info.chi2, float)
    nan = np.isnan(c)
    if nan.any() and not nan[np.argmax(nan):].all():
        bad.append('NaN chi2 not a suffix')
    f = c[~nan]
    if f.size > 1 and np.any(f[1:] < f[:-1]):
        bad.append('chi2 decreasing')
    ids = np.asarray(info.model_id)
    if len(np.unique(ids)) != len(ids):
        bad.append('duplicate model_id')
    return bad
