"""
One shard of one check: a fresh interpreter that imports the code under test from
$VERIF_REPO (default /repo), runs the property module's workload with its monitors
attached, and writes what was observed to a JSON result file.
"""
from __future__ import annotations

import argparse
import atexit
import hashlib
import json
import os
import shutil
import sys
import tempfile
import time
import traceback

HERE = os.path.dirname(os.path.dirname(os.path.abspath(__file__)))


def jsonable(x, depth=0):
    import numpy as np
    if depth > 6:
        return repr(x)[:200]
    if isinstance(x, (str, int, bool)) or x is None:
        return x
    if isinstance(x, float):
        return x if x == x and abs(x) != float('inf') else repr(x)
    if isinstance(x, (np.integer,)):
        return int(x)
    if isinstance(x, (np.floating,)):
        return jsonable(float(x))
    if isinstance(x, (np.bool_,)):
        return bool(x)
    if isinstance(x, bytes):
        return x.decode('latin1')
    if hasattr(x, 'unit') and hasattr(x, 'value') and not isinstance(x, (str, bytes)):
        try:
            return {'value': jsonable(np.asarray(x.value), depth + 1), 'unit': str(x.unit)}
        except Exception:
            return repr(x)[:300]
    if isinstance(x, np.ndarray):
        if x.size > 64:
            return {'shape': list(x.shape), 'dtype': str(x.dtype),
                    'head': jsonable(x.ravel()[:32].tolist(), depth + 1)}
        return jsonable(x.tolist(), depth + 1)
    if isinstance(x, dict):
        return {str(k): jsonable(v, depth + 1) for k, v in list(x.items())[:64]}
    if isinstance(x, (list, tuple)):
        return [jsonable(v, depth + 1) for v in list(x)[:64]]
    return repr(x)[:300]


class Ctx(object):
    """What a property module gets: randomness, scratch space and the recorders."""

    def __init__(self, pid, tier, seed, shard, nshards, scratch, replay=None):
        import numpy as np
        self.pid, self.tier, self.seed = pid, tier, seed
        self.shard, self.nshards = shard, nshards
        self.scratch = scratch
        self.replay = replay
        self.rng = np.random.default_rng(np.random.SeedSequence([seed, int(pid[1:]), shard]))
        self.evaluations = 0
        self.regimes = {}
        self.events = {}
        self.samples = []
        self.violations = []
        self.inconclusive_reasons = []
        self.assumptions = []
        self.rule = ''
        self.exhaustive = None
        self.extra = {}
        self.need_regimes = set()
        self.need_events = set()
        self._keys = set()
        self._ndir = 0
        self.max_violations = 40
        self.t0 = time.time()

    quick = property(lambda self: self.tier == 'quick')

    def mine(self, i):
        """static partition of an enumerated space over the shards"""
        return i % self.nshards == self.shard

    # --- recorders ---------------------------------------------------------
    def case(self, key, nontrivial=True, sample=None):
        self.evaluations += 1
        if nontrivial:
            h = hashlib.blake2b(repr(key).encode(), digest_size=8).digest()
            self._keys.add(int.from_bytes(h, 'little'))
        if sample is not None and len(self.samples) < 3:
            self.samples.append(jsonable(sample))

    def regime(self, name, n=1):
        self.regimes[name] = self.regimes.get(name, 0) + n

    def event(self, name, n=1):
        self.events[name] = self.events.get(name, 0) + n

    def raised(self, exc, key, what, witness=None):
        """report an exception caught around a call into the code under test: a violation, unless the innermost frame of its
        traceback is harness code (a generator, a shim, a reference model): then the harness failed, which is INCONCLUSIVE"""
        tb = getattr(exc, '__traceback__', None)
        last = None
        while tb is not None:
            last = tb.tb_frame.f_code.co_filename
            tb = tb.tb_next
        here = os.path.dirname(os.path.abspath(__file__))
        if last is not None and os.path.abspath(last).startswith(here):
            self.inconclusive('harness error while driving the code under test (%s): %r' % (os.path.basename(last), exc))
            return False
        self.violation(key, what, witness)
        return True

    def violation(self, key, what, witness=None):
        if len(self.violations) < self.max_violations:
            v = {'key': key, 'what': str(what)[:2000], 'witness': jsonable(witness), 'shard': self.shard, 'case': self.evaluations}
            self.violations.append(v)
            side = getattr(self, 'side_file', None)
            if side:          # kept on disk at once: survives a watchdog kill of this shard
                try:
                    with open(side, 'a') as fh:
                        fh.write(json.dumps(v, default=str) + '\n')
                except Exception:
                    pass

    def inconclusive(self, reason):
        if len(self.inconclusive_reasons) < 20:
            self.inconclusive_reasons.append(str(reason)[:500])

    def assume(self, *texts):
        for t in texts:
            if t not in self.assumptions:
                self.assumptions.append(t)

    def require_regimes(self, *names):
        self.need_regimes.update(names)

    def require_events(self, *names):
        self.need_events.update(names)

    # --- scratch -----------------------------------------------------------
    def newdir(self, prefix='d'):
        self._ndir += 1
        p = os.path.join(self.scratch, '%s%05d' % (prefix, self._ndir))
        os.mkdir(p)
        return p

    def rmdir(self, p):
        shutil.rmtree(p, ignore_errors=True)

    def result(self, keyfile):
        import numpy as np
        np.array(sorted(self._keys), dtype=np.uint64).tofile(keyfile)
        return dict(evaluations=self.evaluations, regimes=self.regimes, events=self.events,
                    samples=self.samples, violations=self.violations,
                    inconclusive=self.inconclusive_reasons, assumptions=self.assumptions,
                    rule=self.rule, exhaustive=self.exhaustive, extra=self.extra,
                    need_regimes=sorted(self.need_regimes), need_events=sorted(self.need_events),
                    keyfile=keyfile, anchors=getattr(self, 'anchors', {}),
                    wall_s=time.time() - self.t0)


def main(argv=None):
    ap = argparse.ArgumentParser()
    ap.add_argument('pid')
    ap.add_argument('--tier', default='quick')
    ap.add_argument('--seed', type=int, default=0)
    ap.add_argument('--shard', type=int, default=0)
    ap.add_argument('--nshards', type=int, default=1)
    ap.add_argument('--out', required=True)
    ap.add_argument('--replay', default=None)
    a = ap.parse_args(argv)

    repo = os.environ.get('VERIF_REPO', '/repo')
    sys.path.insert(0, repo)                       # the working tree wins over /venv's editable finder
    sys.path.append(os.path.join(HERE, '.deps'))   # contracts libs: appended, can never shadow /venv

    # the launcher hands over a directory inside its own output directory, which it removes in a finally clause: nothing is left
    # behind even when this shard is killed by the watchdog (atexit does not run then)
    scratch = os.environ.get('VERIF_SCRATCH')
    if scratch:
        os.makedirs(scratch, exist_ok=True)
    else:
        scratch = tempfile.mkdtemp(prefix='verif-%s-' % a.pid)
    atexit.register(shutil.rmtree, scratch, True)
    os.environ['TMPDIR'] = scratch                 # the code under test leaks mkdtemp() memmaps
    tempfile.tempdir = scratch
    os.environ.setdefault('MPLCONFIGDIR', os.path.join(scratch, 'mpl'))
    os.environ.setdefault('XDG_CACHE_HOME', os.path.join(scratch, 'cache'))
    os.environ.setdefault('XDG_CONFIG_HOME', os.path.join(scratch, 'config'))

    ctx = Ctx(a.pid, a.tier, a.seed, a.shard, a.nshards, scratch, a.replay)
    ctx.side_file = a.out + '.violations'
    keyfile = a.out + '.keys'
    rc = 0
    try:
        import warnings
        warnings.simplefilter('ignore')
        import numpy as np
        np.seterr(all='ignore')
        import sedfitter
        if not os.path.abspath(sedfitter.__file__).startswith(os.path.abspath(repo) + os.sep):
            ctx.inconclusive('sedfitter imported from %s, not from %s' % (sedfitter.__file__, repo))
        else:
            import importlib
            mod = importlib.import_module('vmon.props.' + a.pid.lower())
            if a.replay:
                mod.replay(ctx, json.load(open(a.replay)))
            else:
                mod.run(ctx)
    except BaseException as exc:  # harness or import failure: never "held"
        ctx.inconclusive('monitor crashed: %s: %s | %s' % (
            type(exc).__name__, exc, traceback.format_exc()[-1500:]))
        rc = 3
    try:
        from vmon import probe as _probe
        for msg in _probe.MONITOR_ERRORS[:10]:
            ctx.inconclusive('monitor error: ' + msg)
    except Exception:
        pass
    res = ctx.result(keyfile)
    tmp = a.out + '.tmp'
    with open(tmp, 'w') as fh:
        json.dump(res, fh, default=str)
    os.replace(tmp, a.out)
    shutil.rmtree(scratch, ignore_errors=True)
    return rc


if __name__ == '__main__':
    sys.exit(main())
