"""
Oracles over a FitInfo returned by Fitter.fit, evaluated against the *truth* a
package was generated from (never against fitter.models).  Shared by C01, C02, C04,
C08, C11.  Vectorised over models, longdouble arithmetic.
"""
from __future__ import annotations

import numpy as np

from . import oracles as O

LD = np.longdouble


def holds_float32(fitter):
    """True when the model fluxes the fitter holds are single precision (observed on the object, not inferred from the package
    format or the memmap switch: which combinations use float32 storage is an implementation choice); unknown counts as True"""
    try:
        fl = fitter.models.fluxes
        fl = getattr(fl, 'value', fl)
        return np.asarray(fl).dtype.itemsize < 8
    except Exception:
        return True


class GridTruth(object):
    """Truth for one fitter.

    names      truth model names (generation order)
    logm       2-D: log10 mJy [m, f]              3-D: [m, d, f] at the reference grid
    k          extinction pattern at the true band wavelengths [f]
    lo, hi     A_V range
    delta      dex accuracy of the model fluxes held by the fitter (1e-6 float32 memmap)
    logd       3-D only: log10(d/kpc) of the reference grid [d]
    """

    def __init__(self, names, logm, k, lo, hi, delta=0.0, logd=None, tag=''):
        self.names = [n.strip() for n in names]
        self.index = {n: i for i, n in enumerate(self.names)}
        self.logm = np.asarray(logm, LD)
        self.k = np.asarray(k, LD)
        self.lo, self.hi = float(lo), float(hi)
        self.delta = float(delta)
        self.logd = None if logd is None else np.asarray(logd, float)
        self.tag = tag


def rows_to_truth(truth, info):
    """truth index of each result row, by *name* (what 'the model named in the row' means)"""
    return np.array([truth.index.get(str(n).strip(), -1) for n in info.model_name])


def check_structure(ctx, truth, info, key='structure'):
    """each model exactly once; model_id consistent with names is checked by the caller
    that knows the package row order"""
    idx = rows_to_truth(truth, info)
    ok = True
    if np.any(idx < 0):
        ctx.violation(key + ':unknown-name', 'result names a model that is not in the package',
                      {'names': list(map(str, info.model_name[:10]))})
        ok = False
    elif len(idx) != len(truth.names) or len(set(idx.tolist())) != len(idx):
        ctx.violation(key + ':not-each-once', 'result does not list every model exactly once',
                      {'n_rows': len(idx), 'n_models': len(truth.names)})
        ok = False
    return idx, ok


def check_fit2d(ctx, truth, valid, flux, error, info, witness, keyp='fit2d'):
    """C01 oracle on every row of `info`.  Returns summary dict (regime flags)."""
    valid = np.asarray(valid)
    logf, sig, w = O.transform(valid, flux, error)
    idx, ok = check_structure(ctx, truth, info, keyp)
    if not ok:
        return None
    # rows whose model has a non-finite log flux in some band (zero flux: outside C01's quantifier, reachable in C04's)
    # are not given to the numeric oracle: ranking and identity only
    finite_rows = np.all(np.isfinite(np.asarray(truth.logm[idx], float)), axis=1)
    if not np.all(finite_rows):
        class _Sub(object):
            pass
        sub = _Sub()
        sel = np.where(finite_rows)[0]
        sub.av, sub.sc, sub.chi2 = np.asarray(info.av)[sel], np.asarray(info.sc)[sel], np.asarray(info.chi2)[sel]
        sub.model_name = np.asarray(info.model_name)[sel]
        if len(sel) == 0:
            return {'cond': 0.0, 'clamped_lo': 0, 'clamped_hi': 0, 'interior': 0, 'limit_violated': 0, 'limit_satisfied': 0, 'rows': 0}
        return _check_fit2d_rows(ctx, truth, valid, flux, error, sub, witness, keyp, idx[sel])
    return _check_fit2d_rows(ctx, truth, valid, flux, error, info, witness, keyp, idx)


def _check_fit2d_rows(ctx, truth, valid, flux, error, info, witness, keyp, idx):
    valid = np.asarray(valid)
    logf, sig, w = O.transform(valid, flux, error)
    fit = w > 0
    wL = np.asarray(w, LD)
    k = truth.k
    logm = truth.logm[idx]                       # rows in result order
    r = np.asarray(logf, LD)[None, :] - logm     # [rows, f]
    rf, wf, kf = r[:, fit], wL[fit], k[fit]

    # ---- reference optimum (vectorised fit2d) ----
    p2 = LD(-2)
    m11 = np.sum(wf * kf * kf)
    m12 = np.sum(wf * kf) * p2
    m22 = np.sum(wf) * p2 * p2
    c1 = np.sum(wf * rf * kf, axis=1)
    c2 = np.sum(wf * rf, axis=1) * p2
    det = m11 * m22 - m12 * m12
    cond = float(det / (m11 * m22))
    a_unc = (m22 * c1 - m12 * c2) / det
    s_unc = (m11 * c2 - m12 * c1) / det
    lo, hi = LD(truth.lo), LD(truth.hi)
    a_ref = np.clip(a_unc, lo, hi)
    cl = (a_unc < lo) | (a_unc > hi)
    s_ref = np.where(cl, np.sum(wf * (rf - a_ref[:, None] * kf), axis=1) * p2 / m22, s_unc)
    obj_ref = np.sum(wf * (rf - a_ref[:, None] * kf - s_ref[:, None] * p2) ** 2, axis=1)

    av = np.asarray(info.av, LD)
    sc = np.asarray(info.sc, LD)
    chi = np.asarray(info.chi2, float)
    res = rf - av[:, None] * kf - sc[:, None] * p2
    obj_rep = np.sum(wf * res ** 2, axis=1)
    swr2 = np.sum(wf * rf ** 2, axis=1)
    dl = LD(truth.delta)
    wsum = np.sum(wf)

    def wit(i, **kw):
        d = dict(witness)
        d.update(row=int(i), model=str(info.model_name[i]), av=float(av[i]), sc=float(sc[i]),
                 chi2=float(chi[i]), av_ref=float(a_ref[i]), sc_ref=float(s_ref[i]),
                 obj_rep=float(obj_rep[i]), obj_ref=float(obj_ref[i]), cond=cond,
                 av_unconstrained=float(a_unc[i]), lo=truth.lo, hi=truth.hi, tag=truth.tag)
        d.update(kw)
        return d

    # (1) range
    bad = np.where(~((av >= lo) & (av <= hi)))[0]
    if bad.size:
        ctx.violation(keyp + ':av-outside-range', 'reported A_V outside the requested range', wit(bad[0]))
    # (2) objective gap
    tol = 1e-9 * obj_ref + 1e-10 * swr2 + 4 * wsum * dl * dl
    bad = np.where(~(obj_rep - obj_ref <= tol))[0]
    if bad.size:
        ctx.violation(keyp + ':not-optimal', 'reported (A_V, scale) is not the constrained least-squares optimum',
                      wit(bad[0], gap=float(obj_rep[bad[0]] - obj_ref[bad[0]]), tol=float(tol[bad[0]])))
    # (3) parameters: tolerance = propagated input accuracy.  dA <= d_eff * gA with
    # gA = sum w|k-kbar| / sum w (k-kbar)^2 (sensitivity of the slope to a perturbation of
    # the data), d_eff = float32 bound + float64 cancellation in the normal equations.
    kbar = np.sum(wf * kf) / wsum
    gA = float(np.sum(wf * np.abs(kf - kbar)) / np.sum(wf * (kf - kbar) ** 2))
    rmax = float(np.max(np.abs(rf)))
    d_eff = 3 * float(dl) + 1e-12 * (1 + rmax) / cond
    tolA = lambda a: 1e-9 / cond * (1 + np.abs(a)) + d_eff * gA
    margin = tolA(a_unc) + 1e-12
    clear_lo = a_unc < lo - margin
    clear_hi = a_unc > hi + margin
    bad = np.where((clear_lo & (av != lo)) | (clear_hi & (av != hi)))[0]
    if bad.size:
        ctx.violation(keyp + ':clamp-not-at-bound', 'unconstrained optimum is outside the range but A_V is not the bound',
                      wit(bad[0]))
    interior = (a_unc > lo + margin) & (a_unc < hi - margin)
    bad = np.where(interior & (np.abs(av - a_ref) > tolA(a_ref)))[0]
    if bad.size:
        ctx.violation(keyp + ':av-off', 'reported A_V differs from the optimum beyond the propagated tolerance',
                      wit(bad[0], tolA=float(tolA(a_ref)[bad[0]]), gA=gA))
    sure_cl = clear_lo | clear_hi
    stol = 0.5 * (d_eff + float(np.abs(kbar)) * np.where(sure_cl, 0.0, tolA(a_ref))) + 1e-9 / cond * (1 + np.abs(s_ref))
    bad = np.where((interior | sure_cl) & (np.abs(sc - s_ref) > stol))[0]
    if bad.size:
        ctx.violation(keyp + ':scale-off', 'reported scale differs from the optimum (scale must be re-optimised at the clamped A_V)',
                      wit(bad[0], tolS=float(stol[bad[0]])))

    # (4) reported chi2 = objective at reported params + limit penalties
    lim = np.where((valid == 2) | (valid == 3))[0]
    pred = logm + av[:, None] * k[None, :] - 2 * sc[:, None]       # [rows, f]
    band = 1e-9 + 2 * float(dl)
    pen_sure = np.zeros(len(av))
    pen_maybe = np.zeros(len(av))
    n_viol = n_sat = 0
    for j in lim:
        d = np.asarray(pred[:, j] - LD(logf[j]), float)
        p = O.penalty(float(sig[j]))
        badside = (d < 0) if valid[j] == 2 else (d > 0)
        near = np.abs(d) <= band
        pen_sure += np.where(badside & ~near, p, 0.0)
        pen_maybe += np.where(near, p, 0.0)
        n_viol += int(np.sum(badside & ~near))
        n_sat += int(np.sum(~badside & ~near))
    eps_r = 1e-13 * (1 + float(np.max(np.abs(rf)))) + float(dl)
    # ... plus the round-off of forming the residual itself at the reported (A_V, scale): log F - log M - A_V k + 2 s is a sum of
    # terms of magnitude |A_V k| and |2 s| (thousands for sources 30 decades from the models) evaluated in double precision
    kmax_ = float(np.max(np.abs(np.asarray(kf, float)))) if len(kf) else 0.0
    eps_r = eps_r + 3e-15 * np.nan_to_num(np.abs(np.asarray(av, float)) * kmax_ + 2 * np.abs(np.asarray(sc, float)), nan=0.0, posinf=0.0, neginf=0.0)[:, None]
    # (the relative term only for finite values: an infinite reported chi^2 must not buy itself an infinite tolerance - it is
    #  accepted below only where the reference itself reaches the '>= 1e30' of an excluded model)
    ctol = 1e-9 * np.where(np.isfinite(chi), np.abs(chi), 0.0) + np.asarray(np.sum(wf * (2 * np.abs(res) * eps_r + eps_r ** 2), axis=1), float) + 1e-300
    lo_c = np.asarray(obj_rep, float) + pen_sure
    hi_c = lo_c + pen_maybe
    lo_c = np.where(lo_c >= 1e29, 1e29, lo_c)      # "chi^2 >= 1e30" up to summation order
    bad = np.where(~((chi >= lo_c - ctol) & ((chi <= hi_c + ctol) | (hi_c >= 1e29))))[0]
    if bad.size:
        i = bad[0]
        ctx.violation(keyp + ':chi2-mismatch', 'reported chi^2 is not the weighted residual sum at the reported (A_V, scale) plus the limit penalties',
                      wit(i, chi2_expected_lo=float(lo_c[i]), chi2_expected_hi=float(hi_c[i]), tol=float(ctol[i])))
    return {'cond': cond, 'clamped_lo': int(np.sum(clear_lo)), 'clamped_hi': int(np.sum(clear_hi)),
            'interior': int(np.sum(interior)), 'limit_violated': n_viol, 'limit_satisfied': n_sat,
            'rows': len(av)}


def chi2_at(truth_logm_rows, k, logf, sig, w, valid, av, band):
    """chi^2 bounds (lo, hi) per row for the 1-parameter (fixed distance) model:
    sum w (r - A k)^2 + penalties; rows = models"""
    wL = np.asarray(w, LD)
    r = np.asarray(logf, LD)[None, :] - truth_logm_rows
    res = r - np.asarray(av, LD)[:, None] * k[None, :]
    obj = np.asarray(np.sum(wL * res ** 2, axis=1), float)
    pred = truth_logm_rows + np.asarray(av, LD)[:, None] * k[None, :]
    sure = np.zeros(len(obj))
    maybe = np.zeros(len(obj))
    for j in np.where((valid == 2) | (valid == 3))[0]:
        d = np.asarray(pred[:, j] - LD(logf[j]), float)
        p = O.penalty(float(sig[j]))
        badside = (d < 0) if valid[j] == 2 else (d > 0)
        near = np.abs(d) <= band
        sure += np.where(badside & ~near, p, 0.0)
        maybe += np.where(near, p, 0.0)
    return obj + sure, obj + sure + maybe, res


# --------------------------------------------------------------------------
# C02: distance-dependent fits
# --------------------------------------------------------------------------

def grid_logm(conv, apertures_au, theta_arcsec, d_kpc):
    """log10 of the model flux at each trial distance, from truth:
    conv[m, a, f] interpolated linearly to theta_f * d_pc (clamped above), times (1 kpc/d)^2"""
    n_m, n_a, n_f = conv.shape
    out = np.zeros((n_m, len(d_kpc), n_f), LD)
    for j, d in enumerate(d_kpc):
        for f in range(n_f):
            a = float(theta_arcsec[f]) * (float(d) * 1000.0)      # (radius in AU = arcsec x pc)
            if apertures_au is None or n_a == 1:
                v = conv[:, 0, f]
            else:
                tab = apertures_au[f] if isinstance(apertures_au, (list, tuple)) else apertures_au      # per-band tables
                v = O.interp_aperture(tab, conv[:, :, f], a)
            out[:, j, f] = np.log10(np.asarray(v, LD) / (LD(d) * LD(d)))
    return out


def check_distance_grid(ctx, distances_kpc, dmin, dmax, step, wit, keyp='grid', exact=False):
    """(a) of C02: both ends, log-uniform, spacing <= step, fewest points.
    exact: the ends are powers of ten and the step a dyadic fraction, so L/step is an exact integer in any floating-point
    formulation: the don't-care band for 'an integer to rounding' does not apply and the count must be L/step + 1"""
    d = np.asarray(distances_kpc, float)
    n = len(d)
    ok = True

    def bad(key, what):
        ctx.violation(keyp + ':' + key, what, dict(wit, distances=d, dmin=dmin, dmax=dmax, step=step))

    if n < 1 or not np.all(np.isfinite(d)) or np.any(d <= 0):
        bad('invalid', 'distance grid empty or not positive finite')
        return False
    if abs(d[0] - dmin) > 1e-12 * dmin or abs(d[-1] - dmax) > 1e-12 * dmax:
        bad('ends', 'distance grid does not include both ends of the requested range')
        ok = False
    L = np.log10(dmax) - np.log10(dmin)
    if dmin == dmax:
        if n != 1:
            bad('count', 'dmin == dmax must give a single distance')
            ok = False
        return ok
    if n < 2:
        bad('count', 'a non-degenerate range needs both ends')
        return False
    ld = np.log10(d)
    diffs = np.diff(ld)
    if np.any(np.abs(diffs - L / (n - 1)) > 1e-9 * step + 1e-13):
        bad('not-log-uniform', 'trial distances are not uniform in log space')
        ok = False
    if L / (n - 1) > step * (1 + 1e-9):
        bad('too-coarse', 'spacing of the distance grid exceeds the package log-distance step')
        ok = False
    # fewest points: with one point less the spacing would exceed the step.
    # don't-care: L/step an integer to rounding -> n or n+1 both accepted
    if exact and n != int(round(L / step)) + 1:
        bad('not-minimal', 'distance grid does not have the fewest points whose spacing does not exceed the step (range = exact multiple of the step)')
        ok = False
    elif n > 2 and L / (n - 2) <= step * (1 - 1e-9):
        q = L / step
        if not (abs(q - round(q)) < 1e-9 * max(1.0, q) and n - 2 == round(q)):
            bad('not-minimal', 'distance grid has more points than needed for the step')
            ok = False
    return ok


def check_fit3d(ctx, truth, valid, flux, error, info, witness, keyp='fit3d', check_min=True):
    valid = np.asarray(valid)
    logf, sig, w = O.transform(valid, flux, error)
    idx, ok = check_structure(ctx, truth, info, keyp)
    if not ok:
        return None
    wL = np.asarray(w, LD)
    k = truth.k
    logm = truth.logm[idx]                                   # [rows, d, f]
    r = np.asarray(logf, LD)[None, None, :] - logm
    swk2 = np.sum(wL * k * k)
    a_unc = np.sum(wL * r * k, axis=2) / swk2                # [rows, d]
    lo, hi = LD(truth.lo), LD(truth.hi)
    a_ref = np.clip(a_unc, lo, hi)
    res = r - a_ref[:, :, None] * k
    obj = np.asarray(np.sum(wL * res ** 2, axis=2), float)
    dl = float(truth.delta)
    band = 1e-9 + 2 * dl
    pred = logm + a_ref[:, :, None] * k
    sure = np.zeros(obj.shape)
    maybe = np.zeros(obj.shape)
    n_pen = 0
    for j in np.where((valid == 2) | (valid == 3))[0]:
        dd = np.asarray(pred[:, :, j] - LD(logf[j]), float)
        p = O.penalty(float(sig[j]))
        badside = (dd < 0) if valid[j] == 2 else (dd > 0)
        near = np.abs(dd) <= band
        sure += np.where(badside & ~near, p, 0.0)
        maybe += np.where(near, p, 0.0)
        n_pen += int(np.sum(badside & ~near))
    rmax = float(np.max(np.abs(r[:, :, w > 0]))) if np.any(w > 0) else 0.0
    eps_r = 1e-13 * (1 + rmax) + dl
    ctol = np.asarray(np.sum(wL * (2 * np.abs(res) * eps_r + eps_r ** 2), axis=2), float)
    Lb = obj + sure
    Hb = obj + sure + maybe
    big = Lb >= 1e29
    Lb = np.where(big, 1e29, Lb)
    Hb = np.where(big, np.inf, Hb)
    chi = np.asarray(info.chi2, float)
    sc = np.asarray(info.sc, float)
    av = np.asarray(info.av, LD)
    nrow = len(chi)

    def wit(i, **kw):
        d = dict(witness)
        d.update(row=int(i), model=str(info.model_name[i]), av=float(av[i]), sc=float(sc[i]), chi2=float(chi[i]),
                 lo=truth.lo, hi=truth.hi, tag=truth.tag, logd=truth.logd)
        d.update(kw)
        return d

    # reported scale is log10 of a grid distance
    jj = np.array([int(np.argmin(np.abs(truth.logd - s))) for s in sc])
    bad = np.where(np.abs(truth.logd[jj] - sc) > 1e-12 * (1 + np.abs(sc)))[0]
    if bad.size:
        ctx.violation(keyp + ':scale-not-on-grid', 'reported scale is not log10(d/kpc) of a trial distance', wit(bad[0]))
        return None
    rows = np.arange(nrow)
    minL = np.min(Lb, axis=1)
    minH = np.min(Hb, axis=1)
    tolrow = 1e-9 * np.where(np.isfinite(chi), np.abs(chi), 0.0) + np.max(ctol, axis=1) + 1e-300          # (finite values only: see check_fit2d)
    # chi2 is the minimum over the grid
    fin = np.isfinite(chi)
    bad = np.where(~((chi >= minL - tolrow) & (chi <= minH + tolrow)) & check_min)[0]
    if bad.size:
        i = bad[0]
        ctx.violation(keyp + ':chi2-not-grid-minimum', 'reported chi^2 is not the minimum over the distance grid',
                      wit(i, min_lo=float(minL[i]), min_hi=float(minH[i]), tol=float(tolrow[i]),
                          ref_best_j=int(np.argmin(Lb[i])), rep_j=int(jj[i])))
    # ... and is attained at the reported distance
    Lr, Hr = Lb[rows, jj], Hb[rows, jj]
    bad = np.where(~((chi >= Lr - tolrow) & (chi <= Hr + tolrow) & ((Lr <= minH + 2 * tolrow) | (not check_min))) & (fin | check_min))[0]
    if bad.size:
        i = bad[0]
        ctx.violation(keyp + ':chi2-not-at-reported-distance', 'reported chi^2 / A_V / scale do not belong to the same trial distance',
                      wit(i, chi2_at_reported_lo=float(Lr[i]), chi2_at_reported_hi=float(Hr[i]), min_hi=float(minH[i]),
                          rep_j=int(jj[i]), tol=float(tolrow[i])))
    # A_V = clip(optimal scaling at the reported distance)
    gA = float(np.sum(wL * np.abs(k)) / swk2)
    d_eff = 3 * dl + 1e-13 * (1 + rmax)
    au = a_unc[rows, jj]
    ar = a_ref[rows, jj]
    tolA = 1e-12 * (1 + np.abs(au)) + d_eff * gA
    clear_lo = au < lo - tolA
    clear_hi = au > hi + tolA
    interior = (au > lo + tolA) & (au < hi - tolA)
    bad = np.where(((clear_lo & (av != lo)) | (clear_hi & (av != hi)) | (interior & (np.abs(av - ar) > tolA))
                    | ~((av >= lo) & (av <= hi))) & (fin | check_min))[0]
    if bad.size:
        i = bad[0]
        ctx.violation(keyp + ':av-not-clipped-optimum', 'reported A_V is not the least-squares optimum at the reported distance clipped to the range',
                      wit(i, av_ref=float(ar[i]), av_unconstrained=float(au[i]), tolA=float(tolA[i]), rep_j=int(jj[i])))
    nd = len(truth.logd)
    return {'rows': nrow, 'clipped': int(np.sum(clear_lo | clear_hi)), 'interior': int(np.sum(interior)),
            'best_first': int(np.sum(jj == 0)), 'best_last': int(np.sum(jj == nd - 1)),
            'best_mid': int(np.sum((jj > 0) & (jj < nd - 1))), 'penalised': n_pen}


def check_model_fluxes(ctx, truth, info, witness, keyp='model-fluxes'):
    """C04: stored predicted log10 fluxes = model log10 flux + A_V k (+ distance scaling implied by scale)"""
    if info.model_fluxes is None:
        ctx.violation(keyp + ':absent', 'Fitter.fit returned no predicted fluxes', witness)
        return False
    idx = rows_to_truth(truth, info)
    if np.any(idx < 0):
        return False
    av = np.asarray(info.av, LD)
    sc = np.asarray(info.sc, float)
    mf = np.asarray(info.model_fluxes, float)
    if truth.logd is None:
        pred = truth.logm[idx] + av[:, None] * truth.k[None, :] - 2 * np.asarray(sc, LD)[:, None]
    else:
        jj = np.array([int(np.argmin(np.abs(truth.logd - s))) for s in sc])
        pred = truth.logm[idx, jj, :] + av[:, None] * truth.k[None, :]
    pred = np.asarray(pred, float)
    if mf.shape != pred.shape:
        ctx.violation(keyp + ':shape', 'predicted-flux array has the wrong shape', dict(witness, got=mf.shape, want=pred.shape))
        return False
    tol = 1e-10 * (1 + np.abs(pred)) + truth.delta
    fin = np.isfinite(pred)
    bad = np.where(fin & ~(np.abs(mf - pred) <= tol))
    if bad[0].size:
        i, f = int(bad[0][0]), int(bad[1][0])
        ctx.violation(keyp + ':mismatch', "stored predicted flux is not the row's own model flux + A_V*k + distance scaling",
                      dict(witness, row=i, band=f, model=str(info.model_name[i]), stored=float(mf[i, f]), expected=float(pred[i, f]),
                           av=float(av[i]), sc=float(sc[i])))
        return False
    return True
