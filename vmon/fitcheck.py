"""
Oracles over a FitInfo returned by Fitter.fit, evaluated against the *truth* a
package was generated from (never against fitter.models).  Shared by C01, C02, C04,
C08, C11.  Vectorised over models, longdouble arithmetic.
"""
from __future__ import annotations

import numpy as np

from . import oracles as O

LD = np.longdouble


class GridTruth(object):
    """Truth for one fitter.

    names      truth model names (generation order)
    logm       2-D: log10 mJy [m, f]              3-D: [m, d, f] at the reference grid
    k          extinction pattern at the true band wavelengths [f]
    lo, hi     A_V range
    delta      dex accuracy of the model fluxes held by the fitter (1e-6 float32 memmap)
    logd       3-D only: log10(d/kpc) of the reference grid [d]
    """

    def __init__(self, names, logm, k, lo, hi, delta=0.0, logd=None, tag=''):
        self.names = [n.strip() for n in names]
        self.index = {n: i for i, n in enumerate(self.names)}
        self.logm = np.asarray(logm, LD)
        self.k = np.asarray(k, LD)
        self.lo, self.hi = float(lo), float(hi)
        self.delta = float(delta)
        self.logd = None if logd is None else np.asarray(logd, float)
        self.tag = tag


def rows_to_truth(truth, info):
    """truth index of each result row, by *name* (what 'the model named in the row' means)"""
    return np.array([truth.index.get(str(n).strip(), -1) for n in info.model_name])


def check_structure(ctx, truth, info, key='structure'):
    """each model exactly once; model_id consistent with names is checked by the caller
    that knows the package row order"""
    idx = rows_to_truth(truth, info)
    ok = True
    if np.any(idx < 0):
        ctx.violation(key + ':unknown-name', 'result names a model that is not in the package',
                      {'names': list(map(str, info.model_name[:10]))})
        ok = False
    elif len(idx) != len(truth.names) or len(set(idx.tolist())) != len(idx):
        ctx.violation(key + ':not-each-once', 'result does not list every model exactly once',
                      {'n_rows': len(idx), 'n_models': len(truth.names)})
        ok = False
    return idx, ok


def check_fit2d(ctx, truth, valid, flux, error, info, witness, keyp='fit2d'):
    """C01 oracle on every row of `info`.  Returns summary dict (regime flags)."""
    valid = np.asarray(valid)
    logf, sig, w = O.transform(valid, flux, error)
    idx, ok = check_structure(ctx, truth, info, keyp)
    if not ok:
        return None
    fit = w > 0
    wL = np.asarray(w, LD)
    k = truth.k
    logm = truth.logm[idx]                       # rows in result order
    r = np.asarray(logf, LD)[None, :] - logm     # [rows, f]
    rf, wf, kf = r[:, fit], wL[fit], k[fit]

    # ---- reference optimum (vectorised fit2d) ----
    p2 = LD(-2)
    m11 = np.sum(wf * kf * kf)
    m12 = np.sum(wf * kf) * p2
    m22 = np.sum(wf) * p2 * p2
    c1 = np.sum(wf * rf * kf, axis=1)
    c2 = np.sum(wf * rf, axis=1) * p2
    det = m11 * m22 - m12 * m12
    cond = float(det / (m11 * m22))
    a_unc = (m22 * c1 - m12 * c2) / det
    s_unc = (m11 * c2 - m12 * c1) / det
    lo, hi = LD(truth.lo), LD(truth.hi)
    a_ref = np.clip(a_unc, lo, hi)
    cl = (a_unc < lo) | (a_unc > hi)
    s_ref = np.where(cl, np.sum(wf * (rf - a_ref[:, None] * kf), axis=1) * p2 / m22, s_unc)
    obj_ref = np.sum(wf * (rf - a_ref[:, None] * kf - s_ref[:, None] * p2) ** 2, axis=1)

    av = np.asarray(info.av, LD)
    sc = np.asarray(info.sc, LD)
    chi = np.asarray(info.chi2, float)
    res = rf - av[:, None] * kf - sc[:, None] * p2
    obj_rep = np.sum(wf * res ** 2, axis=1)
    swr2 = np.sum(wf * rf ** 2, axis=1)
    dl = LD(truth.delta)
    wsum = np.sum(wf)

    def wit(i, **kw):
        d = dict(witness)
        d.update(row=int(i), model=str(info.model_name[i]), av=float(av[i]), sc=float(sc[i]),
                 chi2=float(chi[i]), av_ref=float(a_ref[i]), sc_ref=float(s_ref[i]),
                 obj_rep=float(obj_rep[i]), obj_ref=float(obj_ref[i]), cond=cond,
                 av_unconstrained=float(a_unc[i]), lo=truth.lo, hi=truth.hi, tag=truth.tag)
        d.update(kw)
        return d

    # (1) range
    bad = np.where(~((av >= lo) & (av <= hi)))[0]
    if bad.size:
        ctx.violation(keyp + ':av-outside-range', 'reported A_V outside the requested range', wit(bad[0]))
    # (2) objective gap
    tol = 1e-9 * obj_ref + 1e-10 * swr2 + 4 * wsum * dl * dl
    bad = np.where(~(obj_rep - obj_ref <= tol))[0]
    if bad.size:
        ctx.violation(keyp + ':not-optimal', 'reported (A_V, scale) is not the constrained least-squares optimum',
                      wit(bad[0], gap=float(obj_rep[bad[0]] - obj_ref[bad[0]]), tol=float(tol[bad[0]])))
    # (3) parameters: tolerance = propagated input accuracy.  dA <= d_eff * gA with
    # gA = sum w|k-kbar| / sum w (k-kbar)^2 (sensitivity of the slope to a perturbation of
    # the data), d_eff = float32 bound + float64 cancellation in the normal equations.
    kbar = np.sum(wf * kf) / wsum
    gA = float(np.sum(wf * np.abs(kf - kbar)) / np.sum(wf * (kf - kbar) ** 2))
    rmax = float(np.max(np.abs(rf)))
    d_eff = 3 * float(dl) + 1e-12 * (1 + rmax) / cond
    tolA = lambda a: 1e-9 / cond * (1 + np.abs(a)) + d_eff * gA
    margin = tolA(a_unc) + 1e-12
    clear_lo = a_unc < lo - margin
    clear_hi = a_unc > hi + margin
    bad = np.where((clear_lo & (av != lo)) | (clear_hi & (av != hi)))[0]
    if bad.size:
        ctx.violation(keyp + ':clamp-not-at-bound', 'unconstrained optimum is outside the range but A_V is not the bound',
                      wit(bad[0]))
    interior = (a_unc > lo + margin) & (a_unc < hi - margin)
    bad = np.where(interior & (np.abs(av - a_ref) > tolA(a_ref)))[0]
    if bad.size:
        ctx.violation(keyp + ':av-off', 'reported A_V differs from the optimum beyond the propagated tolerance',
                      wit(bad[0], tolA=float(tolA(a_ref)[bad[0]]), gA=gA))
    sure_cl = clear_lo | clear_hi
    stol = 0.5 * (d_eff + float(np.abs(kbar)) * np.where(sure_cl, 0.0, tolA(a_ref))) + 1e-9 / cond * (1 + np.abs(s_ref))
    bad = np.where((interior | sure_cl) & (np.abs(sc - s_ref) > stol))[0]
    if bad.size:
        ctx.violation(keyp + ':scale-off', 'reported scale differs from the optimum (scale must be re-optimised at the clamped A_V)',
                      wit(bad[0], tolS=float(stol[bad[0]])))

    # (4) reported chi2 = objective at reported params + limit penalties
    lim = np.where((valid == 2) | (valid == 3))[0]
    pred = logm + av[:, None] * k[None, :] - 2 * sc[:, None]       # [rows, f]
    band = 1e-9 + 2 * float(dl)
    pen_sure = np.zeros(len(av))
    pen_maybe = np.zeros(len(av))
    n_viol = n_sat = 0
    for j in lim:
        d = np.asarray(pred[:, j] - LD(logf[j]), float)
        p = O.penalty(float(sig[j]))
        badside = (d < 0) if valid[j] == 2 else (d > 0)
        near = np.abs(d) <= band
        pen_sure += np.where(badside & ~near, p, 0.0)
        pen_maybe += np.where(near, p, 0.0)
        n_viol += int(np.sum(badside & ~near))
        n_sat += int(np.sum(~badside & ~near))
    eps_r = 1e-13 * (1 + float(np.max(np.abs(rf)))) + float(dl)
    ctol = 1e-9 * np.abs(chi) + np.asarray(np.sum(wf * (2 * np.abs(res) * eps_r + eps_r ** 2), axis=1), float) + 1e-300
    lo_c = np.asarray(obj_rep, float) + pen_sure
    hi_c = lo_c + pen_maybe
    lo_c = np.where(lo_c >= 1e29, 1e29, lo_c)      # "chi^2 >= 1e30" up to summation order
    bad = np.where(~((chi >= lo_c - ctol) & ((chi <= hi_c + ctol) | (hi_c >= 1e29))))[0]
    if bad.size:
        i = bad[0]
        ctx.violation(keyp + ':chi2-mismatch', 'reported chi^2 is not the weighted residual sum at the reported (A_V, scale) plus the limit penalties',
                      wit(i, chi2_expected_lo=float(lo_c[i]), chi2_expected_hi=float(hi_c[i]), tol=float(ctol[i])))
    return {'cond': cond, 'clamped_lo': int(np.sum(clear_lo)), 'clamped_hi': int(np.sum(clear_hi)),
            'interior': int(np.sum(interior)), 'limit_violated': n_viol, 'limit_satisfied': n_sat,
            'rows': len(av)}


def chi2_at(truth_logm_rows, k, logf, sig, w, valid, av, band):
    """chi^2 bounds (lo, hi) per row for the 1-parameter (fixed distance) model:
    sum w (r - A k)^2 + penalties; rows = models"""
    wL = np.asarray(w, LD)
    r = np.asarray(logf, LD)[None, :] - truth_logm_rows
    res = r - np.asarray(av, LD)[:, None] * k[None, :]
    obj = np.asarray(np.sum(wL * res ** 2, axis=1), float)
    pred = truth_logm_rows + np.asarray(av, LD)[:, None] * k[None, :]
    sure = np.zeros(len(obj))
    maybe = np.zeros(len(obj))
    for j in np.where((valid == 2) | (valid == 3))[0]:
        d = np.asarray(pred[:, j] - LD(logf[j]), float)
        p = O.penalty(float(sig[j]))
        badside = (d < 0) if valid[j] == 2 else (d > 0)
        near = np.abs(d) <= band
        sure += np.where(badside & ~near, p, 0.0)
        maybe += np.where(near, p, 0.0)
    return obj + sure, obj + sure + maybe, res
