"""C18 — filter_output splits sources into two complete, disjoint, faithful files.

Trace checking: FitInfoFile.write events per writer (recorded by a pre-condition probe),
records read back from both outputs, file-effect trace; offline: multiset union = input,
bit-identical records, order preserved, good <=> best chi^2 (per point) below threshold.
"""
import os

import numpy as np
from astropy import units as u

from .. import gen, pkg, probe, effects
from .. import oracles as O
from .c19 import read_all

SHARDS = {'quick': 4, 'thorough': 16, 'quick_timeout': 900, 'thorough_timeout': 3600}

def run(ctx):
    rng = ctx.rng
    from sedfitter import filter_output
    from sedfitter.fit_info import FitInfoFile
    ctx.rule = ('inputs with 1..10 sources built from real fits (n_data 1..8; best chi^2 incl. ties, huge, inf, NaN), thresholds mid-way between attained '
                'values (all good / all bad / mixed), criterion chi or cpd, explicit or automatic output names, input as file or list. a case = one '
                'filter_output call; non-trivial = >=2 sources')
    ctx.assume('thresholds never equal an attained best chi^2 (per point) and are finite and non-zero', 'every record has at least one fit (a best chi^2 exists)',
               'a zero-byte output file means no records')
    ctx.require_events('split:checked', 'metadata:checked')
    ctx.require_regimes('sources:sharing-a-name', 'call:names-relative-to-the-current-directory', 'call:positional-arguments:chi', 'call:positional-arguments:cpd', 'input:name-re-used-with-another-set-up', 'all-good', 'all-bad', 'mixed', 'criterion:chi', 'criterion:cpd', 'names:auto', 'names:explicit', 'input:file', 'input:list',
                        'best:nan', 'best:inf', 'n_data=1', 'flag-4-points', 'nan-suffix', 'names:mixed', 'outputs:re-used-names', 'flags-changed-after-n_data-was-read', 'threshold:close-to-attained-value')
    d = ctx.newdir('c18')
    n_models, nb = 5, 8
    names = gen.model_names(rng, n_models, 'num')
    wav = gen.band_wavelengths(rng, nb)
    bn = ['S%d' % i for i in range(nb)]
    conv = gen.conv_grid(rng, n_models, nb)
    md = os.path.join(d, 'models')
    os.makedirs(md)
    gen.write_grid_v1(md, names, bn, wav, conv)
    lw, lc = gen.make_law_arrays(rng, n=10, lo=0.05, hi=3000.0)
    law = gen.build_law(lw, lc)
    k = O.ext_pattern(lw, lc, wav)
    fitter = gen.make_fitter(bn, np.ones(nb), md, law, (0.0, 30.0))
    # a second set-up (another extinction law, tabulated with another number of rows): results of the two alternate, and some input
    # files of consecutive calls carry the same name (a fit re-run with another set-up, filtered again)
    lw2, lc2 = gen.make_law_arrays(rng, n=31, lo=0.04, hi=2500.0)
    law2 = gen.build_law(lw2, lc2)
    k_2 = O.ext_pattern(lw2, lc2, wav)
    fitter_2 = gen.make_fitter(bn, np.ones(nb), md, law2, (0.0, 25.0))
    fitter_1, k_1 = fitter, k
    n_calls = 60 if ctx.quick else 2000
    for ic in range(n_calls):
        fitter, k = (fitter_1, k_1) if ic % 2 == 0 else (fitter_2, k_2)
        n_src = int(rng.integers(1, 11))
        infos = []
        for i in range(n_src):
            nfit = int(rng.integers(1, 9))
            valid = np.array(list(rng.choice([1, 1, 1, 4], nfit)) + list(rng.choice([0, 2, 3, 9], nb - nfit)))
            rng.shuffle(valid)
            if nfit == 1:
                ctx.regime('n_data=1')
            if np.any(valid == 4):
                ctx.regime('flag-4-points')
            m0 = int(rng.integers(n_models))
            pred = np.log10(conv[m0, 0]) + float(rng.uniform(0, 3)) * k
            flux, err = gen.photometry_for(rng, valid, pred)
            nine = (valid == 9) | (valid == 0)
            flux[nine], err[nine] = 10.0 ** pred[nine], 0.1 * 10.0 ** pred[nine]
            sname_ = 'f%02d' % i
            if ic % 4 == 3 and i in (1, 3):
                sname_ = 'f00'          # the same object listed more than once (other photometry): sources sharing a name
                ctx.regime('sources:sharing-a-name')
            info = fitter.fit(gen.build_source(sname_, valid, flux, err))
            r = rng.random()
            if r < 0.1:
                info.chi2 = np.full(len(info.chi2), np.nan)
                ctx.regime('best:nan')
            elif r < 0.2:
                info.chi2 = np.full(len(info.chi2), np.inf)
                ctx.regime('best:inf')
            elif r < 0.3:
                info.chi2 = np.sort(info.chi2) * 0 + np.array([1e30] * len(info.chi2))
            elif r < 0.45 and infos:
                info.chi2 = infos[-1].chi2.copy()          # ties between sources
            elif r < 0.55 and len(info.chi2) >= 2:
                c2 = np.array(info.chi2, float)            # finite best fit, undefined ones at the end
                c2[int(rng.integers(1, len(c2))):] = np.nan
                info.chi2 = c2
                ctx.regime('nan-suffix')
            if rng.random() < 0.3:
                info.keep(('N', int(rng.integers(1, n_models + 1))))
            if rng.random() < 0.5:
                info.model_fluxes = None
            if nfit >= 2 and rng.random() < 0.3:
                # the number of fitted points was looked at once (e.g. to vet the source), then one point was un-flagged:
                # "per fitted point" is about the flags the record carries when it is filtered
                _ = info.source.n_data
                v2_ = np.array(info.source.valid, copy=True)
                v2_[int(np.where((v2_ == 1) | (v2_ == 4))[0][0])] = 0
                info.source.valid = v2_          # (re-assigned through the public attribute; in-place edits of the array are not claimed)
                ctx.regime('flags-changed-after-n_data-was-read')
            infos.append(info)
        path = os.path.join(d, 'in_%d.out' % ic)
        if ic % 4 in (1, 2):
            path = os.path.join(d, 'in_same_name.out')          # the name the previous / next call's input (other set-up) has, too
            ctx.regime('input:name-re-used-with-another-set-up')
        fo = FitInfoFile(path, 'w')
        for inf in infos:
            fo.write(inf)
        fo.close()
        recs = [probe.canon_info(x) for x in infos]
        crit = 'chi' if rng.random() < 0.5 else 'cpd'
        ctx.regime('criterion:' + crit)
        ndat = np.array([int(np.sum((r['source']['valid'] == 1) | (r['source']['valid'] == 4))) for r in recs], float)
        best = np.array([r['chi2'][0] for r in recs], float)
        q = best if crit == 'chi' else best / ndat
        fin = np.unique(q[np.isfinite(q)])
        cand = [1e-3]
        if fin.size:
            cand = list((fin[:-1] + fin[1:]) / 2) + [float(fin[0]) * 0.5, float(fin[-1]) * 2 + 1.0, float(fin[-1]) * 1e3 + 1]
        if fin.size and ic % 2 == 0:
            # ... or very close to an attained value (not equal to it): "below the threshold" has no tolerance
            qv = float(fin[int(rng.integers(fin.size))])
            cand = [qv * (1 + 3e-6), qv * (1 - 3e-6)] if qv != 0 else cand
            ctx.regime('threshold:close-to-attained-value')
        cand = [c for c in cand if c != 0 and np.isfinite(c) and not np.any(q == c)]
        thr = float(cand[int(rng.integers(len(cand)))])
        want_good = [r['source']['name'] for r, v in zip(recs, q) if v < thr]
        want_bad = [r['source']['name'] for r, v in zip(recs, q) if not (v < thr)]
        ctx.regime('all-good' if not want_bad else ('all-bad' if not want_good else 'mixed'))
        form = 'file' if rng.random() < 0.6 else 'list'
        auto = form == 'file' and rng.random() < 0.5
        ctx.regime('input:' + form)
        ctx.regime('names:auto' if auto else 'names:explicit')
        if auto and rng.random() < 0.4:
            ctx.regime('names:mixed')
            if rng.random() < 0.5:
                g, b = path + '_good', os.path.join(d, 'b_%d' % ic)
                kw = dict(output_bad=b)
            else:
                g, b = os.path.join(d, 'g_%d' % ic), path + '_bad'
                kw = dict(output_good=g)
        elif auto:
            g, b = path + '_good', path + '_bad'
            kw = {}
        else:
            g, b = os.path.join(d, 'g_%d' % ic), os.path.join(d, 'b_%d' % ic)
            kw = dict(output_good=g, output_bad=b)
        inp = path if form == 'file' else list(infos)
        wit = dict(n_sources=n_src, criterion=crit, threshold=thr, best=best, n_data=ndat, input=form, auto_names=auto)
        if ic % 3 == 0:
            # the same output names were already used by an earlier filtering of the same results with another threshold
            # (e.g. everything good, everything bad): what that run left behind must not survive
            other = [c for c in cand if c != thr] + [float(np.nanmax(np.where(np.isfinite(q), q, 0))) * 4 + 7.0, 1e-300]
            thr0 = float(other[int(rng.integers(len(other)))])
            try:
                filter_output(inp, **kw, **{crit: thr0})
                ctx.regime('outputs:re-used-names')
                wit['earlier_threshold_same_names'] = thr0
            except Exception as exc:
                ctx.raised(exc, 'filter_output:raised:%s' % type(exc).__name__, 'filter_output raised: %r' % (exc,), dict(wit, threshold=thr0))
                continue
        # every fifth call is made from inside the working directory with bare file names (as in the documentation's examples):
        # input and output names relative to the current directory
        bare = ic % 5 == 4
        cwd0 = os.getcwd()
        if bare:
            os.chdir(d)
            kw = {k_: os.path.basename(v_) for k_, v_ in kw.items()}
            if form == 'file':
                inp = os.path.basename(path)
            ctx.regime('call:names-relative-to-the-current-directory')
        try:
            with effects.trace() as tr:
                if ic % 2 == 0:
                    filter_output(inp, **kw, **{crit: thr})
                else:          # the same call with positional arguments, in the documented order (input, good, bad, chi, cpd)
                    pos = (inp, kw.get('output_good', 'auto'), kw.get('output_bad', 'auto')) + ((thr,) if crit == 'chi' else (None, thr))
                    filter_output(*pos)
                    ctx.regime('call:positional-arguments:' + crit)
        except Exception as exc:
            os.chdir(cwd0)
            ctx.raised(exc, 'filter_output:raised:%s' % type(exc).__name__, 'filter_output raised: %r' % (exc,), dict(wit, bare_names=bare))
            continue
        os.chdir(cwd0)
        wrote = sorted(set(os.path.abspath(p) for p in tr.produced(under=d)))
        third = []
        for x in wrote:
            if x in (os.path.abspath(g), os.path.abspath(b)) or not os.path.isfile(x) or os.path.getsize(x) == 0:
                continue
            try:
                third += [(os.path.basename(x), r_['source']['name']) for r_ in read_all(x)]
            except Exception:
                ctx.event('other-file-written')          # not a results file: not judged
        if third:
            ctx.violation('files:records-in-a-third-file', 'records were written to a file that is neither of the two outputs',
                          dict(wit, third=third[:6], expected=[os.path.basename(g), os.path.basename(b)]))
            continue
        out = {}
        for label, pth in (('good', g), ('bad', b)):
            try:
                out[label] = [] if (not os.path.exists(pth) or os.path.getsize(pth) == 0) else read_all(pth)
            except Exception as exc:
                ctx.raised(exc, 'output-unreadable', 'an output file cannot be read back: %r' % (exc,), dict(wit, which=label))
                out = None
                break
        if out is None:
            continue
        ctx.event('split:checked')
        gn = [r['source']['name'] for r in out['good']]
        bnm = [r['source']['name'] for r in out['bad']]
        if sorted(gn + bnm) != sorted(r['source']['name'] for r in recs):
            ctx.violation('split:not-a-partition', 'the two outputs together do not contain every input source exactly once',
                          dict(wit, good=gn, bad=bnm))
        elif gn != want_good or bnm != want_bad:
            key = 'split:wrong-side' if sorted(gn) != sorted(want_good) else 'split:order-not-preserved'
            ctx.violation(key, 'a source is not in the file its best chi^2 (per point) puts it in, or input order is not preserved',
                          dict(wit, good=gn, bad=bnm, expected_good=want_good, expected_bad=want_bad))
        else:
            # (records are paired by position within each output: names need not be unique)
            exp_g = [r for r, v in zip(recs, q) if v < thr]
            exp_b = [r for r, v in zip(recs, q) if not (v < thr)]
            for r_in, r in list(zip(exp_g, out['good'])) + list(zip(exp_b, out['bad'])):
                dd = probe.same_canon(r_in, r)
                if dd:
                    ctx.violation('split:record-altered', 'a record in an output differs from the input record: %s' % dd, dict(wit, source=r['source']['name']))
                    break
            # the outputs describe the same fit set-up as the input (filters, extinction law, model directory)
            for label, pth in (('good', g), ('bad', b)):
                if not out[label]:
                    continue
                try:
                    fm = FitInfoFile(pth, 'r')
                    m1 = next(iter(fm)).meta
                    fm.close()
                    m0 = infos[0].meta
                    same_meta = (m1.model_dir == m0.model_dir and repr(m1.filters) == repr(m0.filters) and
                                 probe.same(m1.extinction_law.wav.to(u.micron).value, m0.extinction_law.wav.to(u.micron).value) and
                                 probe.same(m1.extinction_law.chi.to(u.cm ** 2 / u.g).value, m0.extinction_law.chi.to(u.cm ** 2 / u.g).value))
                except Exception as exc:
                    ctx.raised(exc, 'split:metadata-unreadable', 'the fit set-up stored with an output cannot be read: %r' % (exc,), dict(wit, which=label))
                    break
                ctx.event('metadata:checked')
                if not same_meta:
                    ctx.violation('split:metadata-altered', 'an output does not carry the fit set-up (filters, extinction law, model directory) of the input', dict(wit, which=label))
                    break
        ctx.case(('fo', ic, ctx.shard), nontrivial=n_src >= 2, sample=dict(wit, good=gn, bad=bnm) if ic < 2 else None)
        for p_ in (path, g, b):
            if os.path.exists(p_):
                os.remove(p_)


def replay(ctx, rec):
    ctx.inconclusive('replay: re-run ./check C18 with VERIF_SEED=%s' % rec.get('seed'))
