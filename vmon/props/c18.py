"""C18 — filter_output splits sources into two complete, disjoint, faithful files.

Trace checking: FitInfoFile.write events per writer (recorded by a pre-condition probe),
records read back from both outputs, file-effect trace; offline: multiset union = input,
bit-identical records, order preserved, good <=> best chi^2 (per point) below threshold.
"""
import os

import numpy as np
from astropy import units as u

from .. import gen, pkg, probe, effects
from .. import oracles as O
from .c19 import read_all

SHARDS = {'quick': 4, 'thorough': 16, 'quick_timeout': 900, 'thorough_timeout': 3600}

TRACE = []


def install(ctx):
    from sedfitter.fit_info import FitInfoFile

    def write_pre(self, info):
        ctx.event('FitInfoFile.write:pre')
        TRACE.append((os.path.abspath(self._handle.name), info.source.name))
        return True

    probe.attach(FitInfoFile, 'write', require=write_pre)


def run(ctx):
    rng = ctx.rng
    install(ctx)
    from sedfitter import filter_output
    from sedfitter.fit_info import FitInfoFile
    ctx.rule = ('inputs with 1..10 sources built from real fits (n_data 1..8; best chi^2 incl. ties, huge, inf, NaN), thresholds mid-way between attained '
                'values (all good / all bad / mixed), criterion chi or cpd, explicit or automatic output names, input as file or list. a case = one '
                'filter_output call; non-trivial = >=2 sources')
    ctx.assume('thresholds never equal an attained best chi^2 (per point) and are finite and non-zero', 'every record has at least one fit (a best chi^2 exists)',
               'a zero-byte output file means no records')
    ctx.require_events('FitInfoFile.write:pre', 'split:checked')
    ctx.require_regimes('all-good', 'all-bad', 'mixed', 'criterion:chi', 'criterion:cpd', 'names:auto', 'names:explicit', 'input:file', 'input:list',
                        'best:nan', 'best:inf')
    d = ctx.newdir('c18')
    n_models, nb = 5, 8
    names = gen.model_names(rng, n_models, 'num')
    wav = gen.band_wavelengths(rng, nb)
    bn = ['S%d' % i for i in range(nb)]
    conv = gen.conv_grid(rng, n_models, nb)
    md = os.path.join(d, 'models')
    os.makedirs(md)
    gen.write_grid_v1(md, names, bn, wav, conv)
    lw, lc = gen.make_law_arrays(rng, n=10, lo=0.05, hi=3000.0)
    law = gen.build_law(lw, lc)
    k = O.ext_pattern(lw, lc, wav)
    fitter = gen.make_fitter(bn, np.ones(nb), md, law, (0.0, 30.0))
    n_calls = 60 if ctx.quick else 2000
    for ic in range(n_calls):
        n_src = int(rng.integers(1, 11))
        infos = []
        for i in range(n_src):
            nfit = int(rng.integers(2, 9))
            valid = np.array([1] * nfit + list(rng.choice([0, 2, 3, 9], nb - nfit)))
            rng.shuffle(valid)
            m0 = int(rng.integers(n_models))
            pred = np.log10(conv[m0, 0]) + float(rng.uniform(0, 3)) * k
            flux, err = gen.photometry_for(rng, valid, pred)
            nine = (valid == 9) | (valid == 0)
            flux[nine], err[nine] = 10.0 ** pred[nine], 0.1 * 10.0 ** pred[nine]
            info = fitter.fit(gen.build_source('f%02d' % i, valid, flux, err))
            r = rng.random()
            if r < 0.1:
                info.chi2 = np.full(len(info.chi2), np.nan)
                ctx.regime('best:nan')
            elif r < 0.2:
                info.chi2 = np.full(len(info.chi2), np.inf)
                ctx.regime('best:inf')
            elif r < 0.3:
                info.chi2 = np.sort(info.chi2) * 0 + np.array([1e30] * len(info.chi2))
            elif r < 0.45 and infos:
                info.chi2 = infos[-1].chi2.copy()          # ties between sources
            if rng.random() < 0.3:
                info.keep(('N', int(rng.integers(1, n_models + 1))))
            if rng.random() < 0.5:
                info.model_fluxes = None
            infos.append(info)
        path = os.path.join(d, 'in_%d.out' % ic)
        fo = FitInfoFile(path, 'w')
        for inf in infos:
            fo.write(inf)
        fo.close()
        recs = [probe.canon_info(x) for x in infos]
        crit = 'chi' if rng.random() < 0.5 else 'cpd'
        ctx.regime('criterion:' + crit)
        ndat = np.array([int(np.sum((r['source']['valid'] == 1) | (r['source']['valid'] == 4))) for r in recs], float)
        best = np.array([r['chi2'][0] for r in recs], float)
        q = best if crit == 'chi' else best / ndat
        fin = np.unique(q[np.isfinite(q)])
        cand = [1e-3]
        if fin.size:
            cand = list((fin[:-1] + fin[1:]) / 2) + [float(fin[0]) * 0.5, float(fin[-1]) * 2 + 1.0, float(fin[-1]) * 1e3 + 1]
        cand = [c for c in cand if c != 0 and np.isfinite(c) and not np.any(q == c)]
        thr = float(cand[int(rng.integers(len(cand)))])
        want_good = [r['source']['name'] for r, v in zip(recs, q) if v < thr]
        want_bad = [r['source']['name'] for r, v in zip(recs, q) if not (v < thr)]
        ctx.regime('all-good' if not want_bad else ('all-bad' if not want_good else 'mixed'))
        form = 'file' if rng.random() < 0.6 else 'list'
        auto = form == 'file' and rng.random() < 0.5
        ctx.regime('input:' + form)
        ctx.regime('names:auto' if auto else 'names:explicit')
        if auto:
            g, b = path + '_good', path + '_bad'
            kw = {}
        else:
            g, b = os.path.join(d, 'g_%d' % ic), os.path.join(d, 'b_%d' % ic)
            kw = dict(output_good=g, output_bad=b)
        inp = path if form == 'file' else list(infos)
        wit = dict(n_sources=n_src, criterion=crit, threshold=thr, best=best, n_data=ndat, input=form, auto_names=auto)
        del TRACE[:]
        try:
            with effects.trace() as tr:
                filter_output(inp, **kw, **{crit: thr})
        except Exception as exc:
            ctx.violation('filter_output:raised:%s' % type(exc).__name__, 'filter_output raised: %r' % (exc,), wit)
            continue
        trace = list(TRACE)
        wrote = sorted(set(os.path.abspath(p) for p in tr.produced(under=d)))
        if wrote != sorted([os.path.abspath(g), os.path.abspath(b)]):
            ctx.violation('files:not-exactly-two', 'filter_output did not write exactly the two output files at the expected names',
                          dict(wit, written=[os.path.basename(x) for x in wrote], expected=[os.path.basename(g), os.path.basename(b)]))
            continue
        out = {}
        for label, pth in (('good', g), ('bad', b)):
            try:
                out[label] = [] if os.path.getsize(pth) == 0 else read_all(pth)
            except Exception as exc:
                ctx.violation('output-unreadable', 'an output file cannot be read back: %r' % (exc,), dict(wit, which=label))
                out = None
                break
        if out is None:
            continue
        ctx.event('split:checked')
        gn = [r['source']['name'] for r in out['good']]
        bnm = [r['source']['name'] for r in out['bad']]
        # each write event went to exactly one of the two writers
        tw = {os.path.abspath(g): [], os.path.abspath(b): []}
        for p_, n_ in trace:
            tw.setdefault(p_, []).append(n_)
        if sorted(gn + bnm) != sorted(r['source']['name'] for r in recs):
            ctx.violation('split:not-a-partition', 'the two outputs together do not contain every input source exactly once',
                          dict(wit, good=gn, bad=bnm))
        elif gn != want_good or bnm != want_bad:
            key = 'split:wrong-side' if sorted(gn) != sorted(want_good) else 'split:order-not-preserved'
            ctx.violation(key, 'a source is not in the file its best chi^2 (per point) puts it in, or input order is not preserved',
                          dict(wit, good=gn, bad=bnm, expected_good=want_good, expected_bad=want_bad))
        else:
            byname = {r['source']['name']: r for r in recs}
            for r in out['good'] + out['bad']:
                dd = probe.same_canon(byname[r['source']['name']], r)
                if dd:
                    ctx.violation('split:record-altered', 'a record in an output differs from the input record: %s' % dd, dict(wit, source=r['source']['name']))
                    break
            if trace and (tw[os.path.abspath(g)] != gn or tw[os.path.abspath(b)] != bnm):
                ctx.violation('trace:writes-vs-files', 'write events per writer do not match what the files contain', dict(wit, trace=trace[:12]))
        ctx.case(('fo', ic, ctx.shard), nontrivial=n_src >= 2, sample=dict(wit, good=gn, bad=bnm) if ic < 2 else None)
        for p_ in (path, g, b):
            if os.path.exists(p_):
                os.remove(p_)


def replay(ctx, rec):
    ctx.inconclusive('replay: re-run ./check C18 with VERIF_SEED=%s' % rec.get('seed'))
