"""C17 — plotted model SEDs are the fitted models.

Observed: the LineCollection returned by plot(results, output_dir=None, sed_type=...,
select_format=...).  Oracle: number of curves; best fit drawn last; at every fitted
monochromatic wavelength the curve drawn for that filter's aperture passes through the
predicted flux stored with the fit (and through the value recomputed from package truth).
"""
import os

import numpy as np
from astropy import units as u

from .. import gen, pkg, probe, convcheck, fitcheck
from .. import oracles as O

SHARDS = {'quick': 4, 'thorough': 16, 'quick_timeout': 1200, 'thorough_timeout': 7200}

MODES = ('interp', 'largest', 'largest+smallest', 'all')
C_CM = 2.99792458e10
TOL = 1.2e-3
LAWU = [None, u.nm, u.AA]          # unit the extinction law's wavelengths are tabulated in (None: micron)


def curves_in_mode(mode, theta):
    uniq = np.unique(theta)
    if mode in ('interp', 'largest'):
        return 1
    if mode == 'largest+smallest':
        return 2
    return len(uniq)


def shown_apertures(mode, theta):
    """the distinct apertures the display mode shows (None: the single composite curve)"""
    if mode == 'interp':
        return [None]
    if mode == 'largest':
        return [float(theta.max())]
    if mode == 'largest+smallest':
        return [float(theta.min()), float(theta.max())]
    return [float(x) for x in np.unique(theta)]


def assign_curves(ok):
    """ok[a, c]: curve c passes through every prediction of the bands measured in shown aperture a.
    Returns a one-to-one assignment aperture -> curve if one exists (largest+smallest with a single distinct aperture
    shows the same aperture twice: both curves must then pass)."""
    from scipy.optimize import linear_sum_assignment
    ok = np.asarray(ok, bool)
    r, c = linear_sum_assignment(~ok)
    if ok[r, c].all() and len(r) == ok.shape[0]:
        return dict(zip(r.tolist(), c.tolist()))
    return None


CALLS = [0]


def run(ctx):
    rng = ctx.rng
    from sedfitter import plot, fit
    from sedfitter.fit_info import FitInfoFile
    import matplotlib.pyplot as plt
    ctx.rule = ('cube packages (single- and multi-aperture, cube stored in either spectral order, 2-D and 3-D) fitted at tabulated wavelengths; 1..5 selected fits; '
                'display mode in {interp, largest, largest+smallest, all}; results passed as object or file (output_convolved). Generators guarantee sensitivity: '
                '|A_V| >= 0.5 for three of four A_V ranges (positive only / reaching below zero / negative only; the fourth is bounded at exactly 0) with |k| >= 0.02 at fitted bands, neighbouring apertures differ by >= 5%, band apertures distinct, so a wrong A_V/scale/aperture moves '
                'the curve by >= 2%. a case = one plot() call; non-trivial = >=2 selected fits or multi-aperture')
    ctx.assume('tolerance 1.2e-3 relative ("within the rounding of the physical constants used": plot() uses KPC = 3.086e21 cm where 1 kpc = 3.0857e21 cm, measured offset 2.089e-4; c rounded to 3e10 would be 7e-4)',
               'default display mode beyond the largest aperture clamps to 0.999*a_max by design: the accepted band is [interpolant at 0.999 a_max, value at a_max] widened by 1.2e-3', 'which curve of a fit\'s block belongs to which aperture is not part of the statement: a one-to-one assignment of curves to the shown apertures must exist',
               'stored predictions (model_fluxes) are themselves checked against truth by C04')
    ctx.require_events('plot:call', 'curve-point:checked', 'curve-point:truth-checked')
    ctx.require_events('plot:called-with-positional-arguments')
    ctx.require_regimes('source:with-an-upper-limit-band', 'cube:apertures-not-stored-in-increasing-order', 'av:negative-among-best-fits', 'mode:interp', 'mode:largest', 'mode:largest+smallest', 'mode:all', 'input:object', 'input:file', 'multi-aperture', 'single-aperture',
                        'cube:asc', 'cube:desc', 'selected>=2', 'beyond-table', 'filters:unsorted', 'two-sources-share-a-model', 'filters-share-an-aperture', 'filters>=12-distinct-apertures', 'cube:unit-not-mJy', 'filters:other-unit', 'law:not-in-micron')
    n_pk = 5 if ctx.quick else 100
    for ip in range(n_pk):
        n_m = int(rng.integers(3, 8))
        multi = ip % 3 != 2
        n_ap = int(rng.integers(3, 6)) if multi else 1
        n_w = 14
        many = multi and ip % 5 == 4          # a dozen or more filters, each with its own aperture
        if many:
            n_ap, n_w = 5, 18
            ctx.regime('filters>=12-distinct-apertures')
        names = gen.model_names(rng, n_m)
        truth = convcheck.make_truth(rng, n_m, n_ap, n_w, names=names, wav_range=(0.3, 300.0))
        if multi:   # aperture table spanning well over a decade, so that distinct band apertures fit inside it
            truth.apertures = float(gen.loguniform(rng, 10.0, 300.0)) * np.cumprod(np.concatenate([[1.0], rng.uniform(4.0 if many else 2.5, 8.0, n_ap - 1)]))
        if multi:
            # neighbouring apertures differ by >= 5% in flux
            inc = rng.uniform(0.08, 0.6, (n_m, n_ap, n_w))
            truth.flux = truth.flux[:, :1, :] * np.cumprod(1 + inc, axis=1)
            truth.err = truth.flux * 0.05
        d = ctx.newdir('c17')
        md = os.path.join(d, 'models')
        os.mkdir(md)
        desc = bool(ip % 2)
        aperture_dependent = multi
        cube_unit = ['mJy', 'Jy', 'uJy'][ip % 3]          # the unit the cube is stored in (BUNIT)
        if cube_unit != 'mJy':
            ctx.regime('cube:unit-not-mJy')
        # the aperture axis of the cube may be stored in any order (largest first, shuffled): the format does not require it increasing
        ap_order = None
        if truth.apertures is not None and len(truth.apertures) > 1 and ip % 3 == 1:
            ap_order = list(range(len(truth.apertures)))[::-1] if (ip // 3) % 2 == 0 else list(rng.permutation(len(truth.apertures)))
            ctx.regime('cube:apertures-not-stored-in-increasing-order')
        pkg.build_v2(md, truth, aperture_dependent=aperture_dependent, logd_step=0.1, descending_wav=desc, unit=cube_unit, ap_order=ap_order)
        ctx.regime('cube:desc' if desc else 'cube:asc')
        ctx.regime('multi-aperture' if multi else 'single-aperture')
        nb = int(rng.integers(3, 5)) if not many else int(rng.integers(12, 15))
        bi = rng.choice(np.arange(1, n_w - 1), nb, replace=False)      # filters in arbitrary (not wavelength-sorted) order
        if ip % 4 == 3:
            bi = np.sort(bi)
        ctx.regime('filters:sorted' if np.all(np.diff(bi) > 0) else 'filters:unsorted')
        wav = truth.wav[bi]
        lw = np.array([0.05, 0.2, 0.55, 1.0, 3.0, 10.0, 100.0, 2000.0])
        lc = 200.0 * (lw / 0.55) ** -1.3
        law = gen.build_law(lw, lc, wav_unit=LAWU[ip % 3])
        if LAWU[ip % 3] is not None:
            ctx.regime('law:not-in-micron')
        k = O.ext_pattern(lw, lc, wav)
        if np.min(np.abs(k)) < 0.02:
            lc = 200.0 * (lw / 0.55) ** -0.6
            law = gen.build_law(lw, lc, wav_unit=LAWU[ip % 3])
            k = O.ext_pattern(lw, lc, wav)
        if multi:
            dmin = float(gen.loguniform(rng, 0.3, 3.0))
            dr = np.array([dmin, dmin * 10 ** 0.35])
            # distinct apertures; one band pushed beyond the table for part of the range
            a_at = np.sort(gen.loguniform(rng, truth.apertures[0] * 1.1, truth.apertures[-1] * 0.6, nb))
            for i in range(1, nb):
                if a_at[i] < a_at[i - 1] * 1.15:
                    a_at[i] = a_at[i - 1] * 1.3
            if rng.random() < 0.6:
                a_at[-1] = max(truth.apertures[-1] * float(rng.uniform(0.7, 1.5)), a_at[-2] * 1.3)
            rng.shuffle(a_at)
            if ip % 4 == 1:       # two filters measured in the same aperture
                a_at[1] = a_at[0]
                ctx.regime('filters-share-an-aperture')
            theta = a_at / (dmin * 1000.0)
        else:
            dr = np.array([1.0, 2.0])
            theta = np.sort(rng.uniform(1, 10, nb))
            rng.shuffle(theta)
        funit_ = [u.micron, u.nm, u.AA, u.mm][ip % 4]     # the wavelength "filters" may be given in any length unit
        if funit_ != u.micron:
            ctx.regime('filters:other-unit')
        filt = [(w * u.micron).to(funit_) for w in wav]
        conv = truth.flux[:, :, bi]
        try:
            # the A_V range of the fit: positive only, reaching below zero (bluer than the models: a negative reported A_V), bounded at
            # exactly zero, negative only
            avr = [(0.5, 12.0), (-8.0, 12.0), (0.0, 12.0), (-9.0, -0.5)][ip % 4]
            fitter = gen.make_fitter(filt, theta, md, law, avr, dr, use_memmap=False)
        except Exception as exc:
            ctx.raised(exc, 'setup:fitter-raised', 'Fitter() raised: %r' % (exc,), dict(multi=multi, theta=theta))
            ctx.rmdir(d)
            continue
        # source planted so that fits have distinct A_V >= 0.5 and (3-D) distinct distances
        m0 = int(rng.integers(n_m))
        a0 = float(rng.uniform(*[(1.0, 8.0), (-7.0, -1.0), (-3.0, 3.0), (-8.0, -1.0)][ip % 4]))
        if multi:
            dist = np.asarray(fitter.models.distances.to(u.kpc).value, float)
            logm = fitcheck.grid_logm(conv, truth.apertures, theta, dist)
            pred = np.asarray(logm[m0, int(rng.integers(len(dist)))], float) + a0 * k
        else:
            logm = np.log10(conv[:, 0, :])
            pred = logm[m0] + a0 * k - 2 * float(rng.uniform(-0.5, 0.5))
        valid = np.array([1] * nb)
        flux = 10.0 ** (pred + rng.normal(0, 0.03, nb))
        err = flux * 0.1
        src = gen.build_source('star', valid, flux, err, 3.0, 4.0)
        info_obj = fitter.fit(src)
        if np.any(np.asarray(info_obj.av[:5], float) < 0):
            ctx.regime('av:negative-among-best-fits')
        if np.any(np.asarray(info_obj.av[:5], float) == 0):
            ctx.regime('av:exactly-zero-among-best-fits')
        # a second source whose best fits share models with the first: one plot() call then draws the same model twice
        flux2 = 10.0 ** (pred + 0.15 + rng.normal(0, 0.03, nb))
        err2 = flux2 * 0.1
        valid2 = valid.copy()
        if nb >= 3 and ip % 2 == 0:
            # one band of the second source is an upper limit well above the models (satisfied: no penalty): it is a fitted wavelength
            # like the others - its predicted flux is stored with the fit and its filter has its own aperture
            jl_ = int(rng.integers(nb))
            valid2[jl_], flux2[jl_], err2[jl_] = 3, flux2[jl_] * 30.0, 0.9
            ctx.regime('source:with-an-upper-limit-band')
        info_obj2 = fitter.fit(gen.build_source('star2', valid2, flux2, err2, 5.0, 6.0))
        data = os.path.join(d, 'data.txt')
        open(data, 'w').write(gen.source_line('star', valid, flux, err, 3.0, 4.0) + '\n' +
                              gen.source_line('star2', valid2, flux2, err2, 5.0, 6.0) + '\n')
        if set(str(x) for x in info_obj.model_name[:2]) & set(str(x) for x in info_obj2.model_name[:2]):
            ctx.regime('two-sources-share-a-model')
        out = os.path.join(d, 'fit.out')
        try:
            fit(data, filt, theta * u.arcsec, md, out, n_data_min=1, extinction_law=law, av_range=avr,
                distance_range=dr * u.kpc, output_format=('A', 0), output_convolved=True)
        except Exception as exc:
            ctx.raised(exc, 'setup:fit-raised', 'fit() raised: %r' % (exc,), dict(multi=multi))
            ctx.rmdir(d)
            continue
        try:
            fin_ = FitInfoFile(out, 'r')
            file_recs = {str(r_.source.name): r_ for r_ in fin_}
            fin_.close()
        except Exception as exc:
            ctx.raised(exc, 'setup:fit-file-unreadable', 'the fit file cannot be read back: %r' % (exc,), dict(multi=multi))
            ctx.rmdir(d)
            continue
        for mode in MODES:
            for form in ('object', 'file'):
                nsel = int(rng.integers(1, min(5, n_m) + 1))
                sel = ('N', nsel)
                ctx.regime('mode:' + mode)
                ctx.regime('input:' + form)
                if nsel >= 2:
                    ctx.regime('selected>=2')
                inp = [info_obj, info_obj2] if form == 'object' else out
                wit = dict(mode=mode, input=form, selected=nsel, multi=multi, cube_desc=desc, theta=theta, band_wav=wav, n_ap=n_ap,
                           apertures=truth.apertures, distance_range=dr)
                try:
                    CALLS[0] += 1
                    if CALLS[0] % 2:
                        figs = plot(inp, output_dir=None, sed_type=mode, select_format=sel)
                    else:          # the same call with positional arguments, in the documented order of the signature
                        figs = plot(inp, None, sel, None, 'A', mode)
                        ctx.event('plot:called-with-positional-arguments')
                    plt.close('all')
                except Exception as exc:
                    ctx.raised(exc, 'plot:raised:%s:%s' % (mode, type(exc).__name__), 'plot() raised: %r' % (exc,), wit)
                    continue
                ctx.event('plot:call')
                ctx.case(('plot', ip, mode, form, nsel, ctx.shard), nontrivial=nsel >= 2 or multi, sample=wit if ip == 0 and mode == 'all' else None)
                for sname, rec in (('star', info_obj), ('star2', info_obj2)):
                  wit = dict(wit, source=sname)
                  if form == 'file':          # "the predicted flux stored with the fit": for file input that is the record in the file
                      rec = file_recs.get(sname, rec)
                  if sname not in figs or 'lines' not in figs[sname]:
                      ctx.violation('plot:no-lines', 'no line collection returned for the source', wit)
                      continue
                  segs = [np.array(s_, float) for s_ in figs[sname]['lines'].get_segments()]
                  # the reference record: what the object interface returned (file records are bit-identical: C10)
                  ncur = curves_in_mode(mode, theta)
                  if len(segs) != nsel * ncur:
                      ctx.violation('plot:curve-count:' + mode, 'number of curves is not selected fits x apertures shown by the display mode',
                                    dict(wit, curves=len(segs), expected=nsel * ncur))
                      continue
                  shown = shown_apertures(mode, theta)
                  for i in range(nsel):
                      block = segs[(nsel - 1 - i) * ncur:(nsel - i) * ncur]      # best fit drawn last
                      av_i, sc_i = float(rec.av[i]), float(rec.sc[i])
                      mi = truth.index(str(rec.model_name[i]))
                      # per band: the accepted interval around the stored prediction and around the value recomputed from truth
                      bands = []
                      for j in range(nb):
                          nu = C_CM / (wav[j] * 1e-4)
                          stored = 10.0 ** float(rec.model_fluxes[i, j]) * 1e-26 * nu
                          lo = hi = stored
                          beyond = False
                          ratio = 1.0
                          if multi:
                              a_req = theta[j] * 10.0 ** sc_i * 1000.0
                              if a_req > truth.apertures[-1] and mode == 'interp':
                                  # band beyond the table in the default display mode: clamped to 0.999 a_max by design
                                  beyond = True
                                  ctx.regime('beyond-table')
                                  v999 = float(O.interp_aperture(truth.apertures, truth.flux[mi, :, bi[j]], 0.999 * truth.apertures[-1]))
                                  vmax = float(truth.flux[mi, -1, bi[j]])
                                  ratio = v999 / vmax
                                  lo, hi = min(stored * ratio, stored), max(stored * ratio, stored)
                              base = float(O.interp_aperture(truth.apertures, truth.flux[mi, :, bi[j]], min(a_req, truth.apertures[-1])))
                              tv = base / (10.0 ** sc_i) ** 2
                          else:
                              tv = float(truth.flux[mi, 0, bi[j]]) * 10.0 ** (-2 * sc_i)
                          tv = tv * 10.0 ** (av_i * k[j]) * 1e-26 * nu
                          tlo, thi = (tv, tv) if not beyond else (min(tv * ratio, tv), max(tv * ratio, tv))
                          bands.append(dict(stored=stored, lo=lo, hi=hi, tv=tv, tlo=tlo, thi=thi, beyond=beyond))
                      # value of every curve of the block at every fitted wavelength
                      vals = np.full((len(block), nb), np.nan)
                      node_missing = False
                      for c_, seg in enumerate(block):
                          for j in range(nb):
                              node = np.where(np.abs(seg[:, 0] / wav[j] - 1) < 1e-9)[0]
                              if node.size != 1:
                                  node_missing = True
                              else:
                                  vals[c_, j] = float(seg[node[0], 1])
                      if node_missing:
                          ctx.violation('plot:node-missing', 'a curve has no node at a fitted wavelength', dict(wit, fit=i))
                          continue
                      for kind, klo, khi, key, what in (
                              ('stored', 'lo', 'hi', 'plot:curve-misses-stored-prediction:', 'the curve drawn for a filter\'s aperture does not pass through the predicted flux stored with the fit'),
                              ('tv', 'tlo', 'thi', 'plot:curve-misses-truth:', 'the curve is not the named model scaled to 10^scale kpc and reddened by the reported A_V')):
                          okm = np.ones((len(shown), len(block)), bool)
                          for a_, ap_ in enumerate(shown):
                              for j in range(nb):
                                  if ap_ is not None and theta[j] != ap_:
                                      continue
                                  ctx.event('curve-point:checked' if kind == 'stored' else 'curve-point:truth-checked')
                                  okm[a_] &= (vals[:, j] >= bands[j][klo] * (1 - TOL)) & (vals[:, j] <= bands[j][khi] * (1 + TOL))
                          if assign_curves(okm) is None:
                              # witness: the first shown aperture no curve serves, with the curve that comes closest
                              a_bad = int(np.argmin(okm.sum(axis=1)))
                              js = [j for j in range(nb) if shown[a_bad] is None or theta[j] == shown[a_bad]]
                              dev = np.abs(vals[:, js] / np.array([bands[j][kind] for j in js])[None, :] - 1).max(axis=1)
                              cbest = int(np.argmin(dev))
                              ctx.violation(key + mode, what,
                                            dict(wit, fit=i, aperture=shown[a_bad], bands=js, closest_curve=cbest, got=vals[cbest, js],
                                                 expected=[bands[j][kind] for j in js], ratio=vals[cbest, js] / np.array([bands[j][kind] for j in js]),
                                                 av=av_i, sc=sc_i, beyond_table=[bands[j]['beyond'] for j in js], model=str(rec.model_name[i])))
                              break
        ctx.rmdir(d)


def replay(ctx, rec):
    ctx.inconclusive('replay: re-run ./check C17 with VERIF_SEED=%s' % rec.get('seed'))
