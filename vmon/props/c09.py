"""C09 — parameter listings follow the fit ranking, for any parameter-file order.

Post-condition contract on FitInfo.filter_table (fires inside write_parameters,
write_parameter_ranges, extract_parameters and the parameter plots) against the truth
parameter rows by model *name*; the text files written by the three functions are parsed
and compared with the fit records and the truth rows.
"""
import os

import numpy as np
from astropy import units as u

from .. import gen, pkg, probe
from .. import oracles as O

SHARDS = {'quick': 4, 'thorough': 16, 'quick_timeout': 900, 'thorough_timeout': 3600}

CUR = {}


def install(ctx):
    from sedfitter.fit_info import FitInfo

    def ft_snapshot(self):
        return probe.arr(self.model_name)

    def ft_post(self, input_table, additional, OLD, result):
        ctx.event('FitInfo.filter_table:post')
        truth = CUR.get('params')
        if truth is None:
            return True
        names = [str(x).strip() for x in self.model_name]
        wit = {'fit_names': names[:8], 'table_names': [str(x).strip() for x in result['MODEL_NAME']][:8], 'perm': CUR.get('perm')}
        if len(result) != len(names) or [str(x).strip() for x in result['MODEL_NAME']] != names:
            ctx.violation('filter_table:rows-not-in-fit-order', 'row i of the table is not the model named in fit i', wit)
            return True
        for col in truth['cols']:
            got = np.asarray(result[col], float)
            want = np.array([truth['rows'][n][col] for n in names], float)
            if not probe.same(got, want):
                ctx.violation('filter_table:wrong-parameter-row', 'a parameter value does not belong to the model named in that fit',
                              dict(wit, column=col, got=got[:6], expected=want[:6]))
                return True
        for par in (additional or {}):
            got = np.asarray(result[par], float)
            src_ = CUR.get('additional_ref', {}).get(par, additional[par])      # (what the caller put in, not what is there after the call)
            if not isinstance(src_, dict):
                continue
            want = np.array([src_[n] for n in names], float)
            if not probe.same(got, want):
                ctx.violation('filter_table:additional-not-by-name', 'an additional parameter is not attached by model name',
                              dict(wit, column=par, got=got[:6], expected=want[:6]))
        if not probe.same(self.model_name, OLD.S):
            ctx.violation('filter_table:modifies-fit', 'filter_table changed the fit it belongs to', wit)
        return True

    probe.attach(FitInfo, 'filter_table', ensure=ft_post, snapshot=ft_snapshot)


def close3e(a, b):
    """equal at %10.3e precision (a token that is not a number where a number is expected is simply not equal)"""
    try:
        a, b = float(a), float(b)
    except (TypeError, ValueError):
        return False
    if a != a and b != b:
        return True
    if a == b:
        return True
    return abs(a - b) <= 5.01e-4 * max(abs(a), abs(b))


def close3f(a, b):
    try:
        a, b = float(a), float(b)
    except (TypeError, ValueError):
        return False
    if a != a and b != b:
        return True
    if a == b:
        return True
    # printed with three decimals (%.3f) or three significant decimals (%.3e): either format is fine
    return abs(a - b) <= max(5.01e-4, 5.01e-4 * max(abs(a), abs(b)))


def expected_kept(rec, sel):
    n_data = int(np.sum((rec['source']['valid'] == 1) | (rec['source']['valid'] == 4)))
    chi = np.asarray(rec['chi2'], float)
    form, v = sel
    if form in 'CDEF' and len(chi):
        q = chi.copy()
        if form in 'DF':
            q = q - q[0]
        if form in 'EF':
            q = q / n_data
        if np.any(q == v):
            return None, n_data
    cnt, _ = O.keep_count(chi, n_data, sel)
    return cnt, n_data


def _isint(t):
    try:
        int(t)
        return True
    except ValueError:
        return False


def _isnum(t):
    try:
        float(t)
        return True
    except ValueError:
        return False


def header_labels(lines, upto, first='chi2'):
    """parameter labels as printed in the header (lower-cased tokens after chi2/av/scale), or None.
    Any number of header / comment lines is tolerated: the header is recognised by its labels."""
    for l in lines[:upto]:
        tok = [t.lower() for t in l.split()]
        if first in tok and 'av' in tok and ('scale' in tok or 'sc' in tok):
            i = max(tok.index('av'), tok.index('scale') if 'scale' in tok else tok.index('sc'))
            return tok[i + 1:]
    return None


def expected_columns(labels, cols):
    """order in which the values are expected: by the printed labels when there are any (so that a header whose labels
    are in another order than the values is seen), else in table + additional order"""
    if labels and sorted(labels) == sorted(c.lower() for c in cols):
        low = {c.lower(): c for c in cols}
        return [low[l] for l in labels]
    return list(cols)


def check_write_parameters(ctx, text, recs, sel, truth, additional, wit):
    lines = text.split('\n')
    cols = truth['cols'] + list(additional)
    names = [r['source']['name'] for r in recs]
    # locate the block of each source by content: "<name> <n_data> <n_fits>"
    starts = [i for i, l in enumerate(lines) if len(l.split()) == 3 and l.split()[0] in names and _isint(l.split()[1]) and _isint(l.split()[2])]
    if [lines[i].split()[0] for i in starts] != names:
        ctx.violation('write_parameters:source-line', 'the listing does not have one "name n_data n_fits" line per source, in input order',
                      dict(wit, found=[lines[i].split()[0] for i in starts], expected=names))
        return
    labels = header_labels(lines, starts[0] if starts else 0)
    ecols = expected_columns(labels, cols)
    for k_, (rec, i0) in enumerate(zip(recs, starts)):
        cnt, n_data = expected_kept(rec, sel)
        if cnt is None:
            return
        tok = lines[i0].split()
        if int(tok[1]) != n_data or int(tok[2]) != cnt:
            ctx.violation('write_parameters:source-line', 'source line does not show n_data (flags 1,4) and n_fits (selected fits)',
                          dict(wit, line=lines[i0], expected=(rec['source']['name'], n_data, cnt)))
            return
        end = starts[k_ + 1] if k_ + 1 < len(starts) else len(lines)
        rows = [l for l in lines[i0 + 1:end] if l.strip()]
        if len(rows) != cnt:
            ctx.violation('write_parameters:fit-line', 'number of fit lines is not the number of selected fits', dict(wit, rows=len(rows), expected=cnt))
            return
        for j, l in enumerate(rows):
            tok = l.split()
            mname = str(rec['model_name'][j]).strip()
            ok = len(tok) == 5 + len(cols) and _isint(tok[0]) and int(tok[0]) == j + 1 and tok[1] == mname and close3f(tok[2], rec['chi2'][j]) and \
                close3f(tok[3], rec['av'][j]) and close3f(tok[4], rec['sc'][j])
            if not ok:
                ctx.violation('write_parameters:fit-line', 'a fit line does not show rank, model name, chi2, A_V, scale of fit i', dict(wit, line=l, rank=j + 1, model=mname))
                return
            for c, col in enumerate(ecols):
                want = truth['rows'][mname][col] if col in truth['cols'] else additional[col][mname]
                if not close3e(tok[5 + c], want):
                    ctx.violation('write_parameters:wrong-parameter-row', 'the parameter values printed next to a fit (under the printed labels) are not those of the model named in it',
                                  dict(wit, line=l, model=mname, column=col, expected=want, labels=labels))
                    return
    ctx.event('text:write_parameters')
    if labels:
        ctx.event('text:labels-used')


def check_ranges(ctx, text, recs, sel, truth, additional, wit):
    lines = text.split('\n')
    cols = truth['cols'] + list(additional)
    names = [r['source']['name'] for r in recs]
    rows = [l for l in lines if l.split() and l.split()[0] in names and len(l.split()) >= 3 and _isint(l.split()[1]) and _isint(l.split()[2])]
    if [l.split()[0] for l in rows] != names:
        ctx.violation('ranges:source-columns', 'the ranges listing does not have one line per source, in input order', dict(wit, found=[l.split()[0] for l in rows]))
        return
    first = lines.index(rows[0]) if rows else 0
    labels = None
    for l in lines[:first]:
        tok = [t.lower() for t in l.split()]
        if 'chi2' in tok and 'av' in tok:
            i = max(tok.index('av'), tok.index('scale') if 'scale' in tok else 0)
            labels = tok[i + 1:]
    ecols = expected_columns(labels, cols)
    for rec, l in zip(recs, rows):
        cnt, n_data = expected_kept(rec, sel)
        if cnt is None:
            return
        tok = l.split()
        nq = 3 + len(cols)
        if len(tok) != 3 + 3 * nq or int(tok[1]) != n_data or int(tok[2]) != cnt:
            ctx.violation('ranges:source-columns', 'ranges line does not show name, n_data, n_fits and one (min, best, max) triple per quantity',
                          dict(wit, line=l[:200], expected=(rec['source']['name'], n_data, cnt)))
            return
        vals = tok[3:]
        if cnt == 0:
            if any(_isnum(v) and np.isfinite(float(v)) for v in vals):
                ctx.violation('ranges:placeholder', 'zero selected fits must not print numbers', dict(wit, line=l[:200]))
            continue
        quantities = [('chi2', np.asarray(rec['chi2'][:cnt], float)), ('av', np.asarray(rec['av'][:cnt], float)), ('scale', np.asarray(rec['sc'][:cnt], float))]
        mn = [str(x).strip() for x in rec['model_name'][:cnt]]
        for col in ecols:
            quantities.append((col, np.array([truth['rows'][m][col] if col in truth['cols'] else additional[col][m] for m in mn], float)))
        for qi, (qn, q) in enumerate(quantities):
            with np.errstate(all='ignore'):
                want = (np.nanmin(q) if np.any(~np.isnan(q)) else np.nan, q[0], np.nanmax(q) if np.any(~np.isnan(q)) else np.nan)          # (infinite values are values)
            got = vals[3 * qi:3 * qi + 3]
            if not all(_isnum(g) and close3e(g, w_) for g, w_ in zip(got, want)):
                ctx.violation('ranges:wrong-triple', 'a (min, best, max) triple is not the minimum, rank-1 value and maximum over the selected fits',
                              dict(wit, quantity=qn, got=got, expected=want, labels=labels))
                return
    ctx.event('text:write_parameter_ranges')


def check_extract(ctx, files, recs, sel, truth, wit, table_cols, header=True):
    for rec in recs:
        cnt, n_data = expected_kept(rec, sel)
        if cnt is None:
            return
        fn = rec['source']['name'] + '.txt'
        if fn not in files:
            ctx.violation('extract:file-missing', 'no file for a source', dict(wit, source=fn))
            return
        lines = [l for l in files[fn].decode().split('\n') if l.strip()]
        hdr = None
        if lines and not all(_isnum(t) for t in lines[0].split()[:3]):
            hdr = lines[0].split()
            lines = lines[1:]
        # the header names three fit columns (whatever they are called) followed by the requested parameter columns
        if header and (hdr is None or len(hdr) != 3 + len(table_cols) or [h.strip().lower() for h in hdr[3:]] != [c_.lower() for c_ in table_cols]):
            ctx.violation('extract:header', 'header does not list three fit columns followed by the requested parameter columns', dict(wit, header=hdr))
            return
        if not header and hdr is not None:
            ctx.violation('extract:header', 'a header was written although header=False', dict(wit, header=hdr))
            return
        rows = lines
        if len(rows) != cnt:
            ctx.violation('extract:row-count', 'number of rows is not the number of selected fits', dict(wit, rows=len(rows), expected=cnt))
            return
        for j, l in enumerate(rows):
            tok = l.split()
            mname = str(rec['model_name'][j]).strip()
            ok = len(tok) == 3 + len(table_cols) and close3e(tok[0], rec['chi2'][j]) and close3e(tok[1], rec['av'][j]) and close3e(tok[2], rec['sc'][j])
            for c, col in enumerate(table_cols):
                if not ok:
                    break
                if col == 'MODEL_NAME':
                    ok = tok[3 + c] == mname
                else:
                    ok = close3e(tok[3 + c], truth['rows'][mname][col])
            if not ok:
                ctx.violation('extract:wrong-row', 'row j does not show chi2, A_V, scale of fit j and the requested parameters of the model named in it',
                              dict(wit, line=l, rank=j + 1, model=mname, columns=table_cols))
                return
    ctx.event('text:extract_parameters')


def global_q(name):
    """a quantity that depends on the model name only (so that one dictionary can cover the models of every package)"""
    import hashlib
    return float(int.from_bytes(hashlib.md5(str(name).strip().encode()).digest()[:3], 'big') % 90000) / 8.0 + 1.0


GLOBAL_INNER = {}
GLOBAL_ADD = {'GLOBALQ': GLOBAL_INNER}


def run(ctx):
    rng = ctx.rng
    install(ctx)
    from sedfitter import write_parameters, write_parameter_ranges, extract_parameters
    from sedfitter.fit_info import FitInfoFile
    ctx.rule = ('real fit results on 2-D packages with 1..4 numeric parameter columns whose values encode (model, column), parameter file stored '
                'in identity / reversed / random / name-sorted order with padded or plain names whose lexical order != numeric order; selectors yielding '
                '0, 1, some, all fits; with/without additional dictionaries; inputs as file, one object, list. a case = one writer call; non-trivial = >=2 selected fits')
    ctx.assume('printed precision: %10.3e -> 5e-4 relative, %10.3f -> 5e-4 absolute', 'selectors whose threshold equals an attained value are skipped (C05 don\'t-care)',
               'parameter values are position-encoding: (model+1)*10^column, so any row mix-up is visible at printed precision')
    ctx.require_events('writers:called-with-positional-arguments', 'FitInfo.filter_table:post', 'text:write_parameters', 'text:write_parameter_ranges', 'text:extract_parameters', 'plot_params:observed', 'history:other-package-fitted-in-between', 'listing:results-already-cut-down')
    ctx.require_regimes('parameter:columns-of-mixed-types', 'additional:one-dictionary-for-every-package', 'additional:values-exactly-zero', 'additional:ints-and-floats', 'perm:identity', 'perm:reversed', 'perm:random', 'perm:name-sorted', 'selected:0', 'selected:1', 'selected:all', 'additional', 'additional:several', 'parameter:nan', 'extract:subset',
                        'input:file', 'input:object', 'input:list')
    n_pk = 8 if ctx.quick else 40
    did_plot = False
    for ip in range(n_pk):
        d = ctx.newdir('c09')
        n_models = int(rng.integers(2, 10))
        nb = int(rng.integers(3, 6))
        ncol = int(rng.integers(1, 5))
        names = gen.model_names(rng, n_models, str(rng.choice(['lex', 'mixed', 'num'])))
        colnames = ['P%d' % c for c in range(ncol)]
        params = {c: (np.arange(n_models) + 1.0) * 10.0 ** ci * (1 if ci % 2 == 0 else -1) for ci, c in enumerate(colnames)}
        if ip % 3 == 1:
            # columns of different types and non-integral values: the first one a 64-bit integer column (a grid index), the others
            # floats with fractional parts (one in single precision)
            params[colnames[0]] = (np.arange(n_models) * 3 + 7).astype(np.int64)
            for ci, c in enumerate(colnames[1:], 1):
                params[c] = params[c] * 0.854 + 0.1234
                if ci == 2:
                    params[c] = params[c].astype(np.float32)
            ctx.regime('parameter:columns-of-mixed-types')
        if ncol >= 2 and ip % 3 == 0:
            params[colnames[-1]][int(rng.integers(n_models))] = np.nan      # a model without a value for one parameter
            ctx.regime('parameter:nan')
        kind = ['identity', 'reversed', 'random', 'name-sorted'][ip % 4]
        order = {'identity': list(range(n_models)), 'reversed': list(range(n_models))[::-1], 'random': list(rng.permutation(n_models)),
                 'name-sorted': list(np.argsort(names))}[kind]
        ctx.regime('perm:' + kind)
        wav = gen.band_wavelengths(rng, nb)
        bn = ['R%d' % i for i in range(nb)]
        conv = gen.conv_grid(rng, n_models, nb)
        md = os.path.join(d, 'models')
        os.makedirs(os.path.join(md, 'convolved'))
        pkg.write_conf(md)
        pkg.write_parameters(md, [names[i] for i in order], {c: params[c][order] for c in colnames}, gz=bool(rng.random() < 0.3), pad=bool(rng.random() < 0.5))
        # convolved files deliberately in a different row order than the parameter file
        corder = list(rng.permutation(n_models))
        for f in range(nb):
            pkg.write_convolved_file(os.path.join(md, 'convolved', bn[f] + '.fits'), [names[i] for i in corder], None,
                                     conv[corder, :, f], conv[corder, :, f] * 0.05, wav[f], pad_names=bool(rng.random() < 0.5))
        truth = {'cols': colnames, 'rows': {names[m]: {c: float(params[c][m]) for c in colnames} for m in range(n_models)}}
        lw, lc = gen.make_law_arrays(rng, n=10, lo=0.05, hi=3000.0)
        law = gen.build_law(lw, lc)
        k = O.ext_pattern(lw, lc, wav)
        fitter = gen.make_fitter(bn, np.ones(nb), md, law, (0.0, 30.0))
        infos = []
        for isrc in range(int(rng.integers(1, 5))):
            valid = gen.flags_with_fit(rng, nb, k, pool=(0, 1, 1, 1, 2, 3, 4, 9))
            m0 = int(rng.integers(n_models))
            pred = np.log10(conv[m0, 0]) + float(rng.uniform(0, 5)) * k
            flux, err = gen.photometry_for(rng, valid, pred)
            nine = (valid == 9) | (valid == 0)
            flux[nine], err[nine] = 10.0 ** pred[nine], 0.1 * 10.0 ** pred[nine]
            infos.append(fitter.fit(gen.build_source('src%d' % isrc, valid, flux, err)))
        # another package with the same model names but other parameter values (another row order too) is fitted by a second
        # fitter while the first results are alive: the listings of the first results must still show the first package's rows
        md2 = os.path.join(d, 'decoy')
        os.makedirs(os.path.join(md2, 'convolved'))
        pkg.write_conf(md2)
        order2 = list(rng.permutation(n_models))
        pkg.write_parameters(md2, [names[i] for i in order2], {c: (params[c] * 1.37 + 5.0)[order2] for c in colnames})
        for f in range(nb):
            pkg.write_convolved_file(os.path.join(md2, 'convolved', bn[f] + '.fits'), names, None, conv[:, :, f] * 1.1, conv[:, :, f] * 0.05, wav[f])
        try:
            decoy = gen.make_fitter(bn, np.ones(nb), md2, law, (0.0, 30.0))
            decoy.fit(gen.build_source('decoy_src', valid, flux, err))
            ctx.event('history:other-package-fitted-in-between')
        except Exception as exc:
            ctx.raised(exc, 'setup:decoy-fitter', 'a second fitter on another package raised: %r' % (exc,), dict(perm=kind))
        path = os.path.join(d, 'fits.out')
        fo = FitInfoFile(path, 'w')
        for inf in infos:
            fo.write(inf)
        fo.close()
        recs = [probe.canon_info(x) for x in infos]
        CUR.update(params=truth, perm=kind)
        table_cols = ['MODEL_NAME'] + colnames
        chi_all = np.concatenate([r['chi2'] for r in recs])
        fin = chi_all[np.isfinite(chi_all)]
        sels = [('A', 0), ('N', 0), ('N', 1), ('N', 2), ('N', n_models + 3), ('C', float(np.min(fin)) * 0.5 - 1.0), ('C', float(np.median(fin)) * 1.0001 + 1e-6),
                ('D', float(np.ptp(fin)) * 0.37 + 1e-6), ('F', 1e9), ('E', float(np.median(fin)) / 3.0 + 1e-6)]
        for isel, sel in enumerate(sels):
            for form in ('file', 'object', 'list'):
                if form == 'file':
                    inp, rr = path, recs
                elif form == 'object':
                    inp, rr = infos[0], recs[:1]
                else:
                    inp, rr = list(infos), recs
                ctx.regime('input:' + form)
                additional = {}
                if (isel + ip) % 3 == 0:
                    # values as a user types them: some whole numbers given as Python ints (the best-fit model's among them), the
                    # others non-integer floats
                    best_names = set(str(r_['model_name'][0]).strip() for r_ in rr if len(r_['model_name']))
                    additional = {'ZETA': {n: (int(1000 + 7 * i) if (n in best_names or i % 3 == 0) else float(1000 + 7 * i) + 0.37) for i, n in enumerate(names)}}
                    ctx.regime('additional:ints-and-floats')
                    # an on/off quantity: exactly zero (int 0, 0.0, False) for the best-fit models and every other model, 1 elsewhere
                    additional['ONOFF'] = {n: ([0, 0.0, False][i % 3] if (n in best_names or i % 2 == 0) else 1) for i, n in enumerate(names)}
                    ctx.regime('additional:values-exactly-zero')
                    if (isel + ip) % 2 == 0:      # several, in non-alphabetical key order
                        additional['ALPHA'] = {n: float(-(3 + i) * 11) for i, n in enumerate(names)}
                        additional['MID'] = {n: float(0.5 + i) for i, n in enumerate(names)}
                        ctx.regime('additional:several')
                    ctx.regime('additional')
                elif (isel + ip) % 3 == 1:
                    # one dictionary that the caller keeps for the whole session and hands to every listing, whatever package the
                    # results come from: it covers the models of every package seen so far (a quantity that depends on the name only)
                    GLOBAL_INNER.update({n: global_q(n) for n in names})
                    additional = GLOBAL_ADD
                    ctx.regime('additional:one-dictionary-for-every-package')
                # what the listings must show is taken from a copy made before the calls
                CUR.update(additional_ref={})
                additional_ref = {k_: ({n: global_q(n) for n in names} if k_ == 'GLOBALQ' else dict(v_)) for k_, v_ in additional.items()}
                CUR.update(additional_ref=additional_ref)
                wit = dict(perm=kind, selector=sel, input=form, n_models=n_models, columns=colnames, names=names)
                kept = [expected_kept(r, sel)[0] for r in rr]
                for c_ in kept:
                    if c_ is not None:
                        ctx.regime('selected:0' if c_ == 0 else ('selected:1' if c_ == 1 else ('selected:all' if c_ == n_models else 'selected:some')))
                out = os.path.join(d, 'o_%d_%s' % (isel, form))
                try:
                    if (isel + ip) % 2:
                        write_parameters(inp, out + '.wp', select_format=sel, additional=additional)
                    else:          # positional, in the documented order
                        write_parameters(inp, out + '.wp', sel, additional)
                        ctx.event('writers:called-with-positional-arguments')
                    check_write_parameters(ctx, open(out + '.wp').read(), rr, sel, truth, additional_ref, dict(wit, writer='write_parameters'))
                except Exception as exc:
                    ctx.raised(exc, 'write_parameters:raised:%s' % type(exc).__name__, 'write_parameters raised: %r' % (exc,), wit)
                try:
                    if (isel + ip) % 2:
                        write_parameter_ranges(inp, out + '.wr', select_format=sel, additional=additional)
                    else:
                        write_parameter_ranges(inp, out + '.wr', sel, additional)
                    check_ranges(ctx, open(out + '.wr').read(), rr, sel, truth, additional_ref, dict(wit, writer='write_parameter_ranges'))
                except Exception as exc:
                    ctx.raised(exc, 'write_parameter_ranges:raised:%s' % type(exc).__name__, 'write_parameter_ranges raised: %r' % (exc,), wit)
                try:
                    os.mkdir(out + '.ex')
                    ekw, ecols_, ehdr = {}, table_cols, True
                    if (isel + ip) % 2 == 1:          # a chosen subset of the parameters, in a chosen order, and no header
                        ecols_ = [colnames[-1], 'MODEL_NAME'] + ([colnames[0]] if ncol > 1 else [])
                        ehdr = bool((isel + ip) % 4 == 1)
                        ekw = dict(parameters=ecols_, header=ehdr)
                        ctx.regime('extract:subset')
                    extract_parameters(input=inp, output_prefix=out + '.ex/', output_suffix='.txt', select_format=sel, **ekw)
                    files = {f: open(os.path.join(out + '.ex', f), 'rb').read() for f in os.listdir(out + '.ex')}
                    check_extract(ctx, files, rr, sel, truth, dict(wit, writer='extract_parameters', extract_options=str(ekw)), ecols_, header=ehdr)
                except Exception as exc:
                    ctx.raised(exc, 'extract_parameters:raised:%s' % type(exc).__name__, 'extract_parameters raised: %r' % (exc,), wit)
                ctx.case(('w', ip, isel, form, ctx.shard), nontrivial=any((c_ or 0) >= 2 for c_ in kept),
                         sample=dict(wit, kept=kept) if ip == 0 and isel == 2 else None)
        # results that were already cut down (stored with an output selector, or keep() called on them) and are then listed
        # with "all": "all" means all the fits the result still holds
        if n_models >= 3:
            pre = [x.copy() for x in infos]
            for x in pre:
                x.keep(('N', int(rng.integers(1, n_models))))
            recs_pre = [probe.canon_info(x) for x in pre]
            path_pre = os.path.join(d, 'fits_pre.out')
            fo = FitInfoFile(path_pre, 'w')
            for x in pre:
                fo.write(x)
            fo.close()
            for form, inp in (('list', list(pre)), ('file', path_pre)):
                wit = dict(perm=kind, selector=('A', 0), input=form, n_models=n_models, columns=colnames, names=names, results='already cut down with N')
                out = os.path.join(d, 'pre_%s' % form)
                try:
                    write_parameters(inp, out + '.wp', select_format=('A', 0))
                    check_write_parameters(ctx, open(out + '.wp').read(), recs_pre, ('A', 0), truth, {}, dict(wit, writer='write_parameters'))
                    write_parameter_ranges(inp, out + '.wr', select_format=('A', 0))
                    check_ranges(ctx, open(out + '.wr').read(), recs_pre, ('A', 0), truth, {}, dict(wit, writer='write_parameter_ranges'))
                    ctx.event('listing:results-already-cut-down')
                except Exception as exc:
                    ctx.raised(exc, 'listing-of-cut-down-results:raised:%s' % type(exc).__name__, 'a listing of results that had been cut down raised: %r' % (exc,), wit)
        # the table handed to the parameter plots (renders; once per run in quick)
        if not did_plot or not ctx.quick:
            did_plot = True
            from sedfitter import plot_params_1d, plot_params_2d
            import matplotlib.pyplot as plt
            # what reaches the axes is observed (scatter points / histogram polygons), whichever way the plot obtained its table
            import matplotlib.axes as maxes
            drawn = {'scatter': [], 'patch': []}
            o_sc, o_ap, o_pl = maxes.Axes.scatter, maxes.Axes.add_patch, maxes.Axes.plot

            def pl_(self, *a_, **k_):
                try:
                    if len(a_) >= 2 and not isinstance(a_[1], str) and np.ndim(a_[0]) == 1 and np.ndim(a_[1]) == 1:
                        drawn['scatter'].append((np.array(a_[0], float).ravel(), np.array(a_[1], float).ravel()))
                except Exception:
                    pass
                return o_pl(self, *a_, **k_)

            def sc_(self, x, y, *a_, **k_):
                try:
                    drawn['scatter'].append((np.array(x, float).ravel(), np.array(y, float).ravel()))
                except Exception:
                    pass
                return o_sc(self, x, y, *a_, **k_)

            def ap_(self, p_):
                try:
                    drawn['patch'].append(np.array(p_.get_xy(), float))
                except Exception:
                    pass
                return o_ap(self, p_)

            try:
                maxes.Axes.scatter, maxes.Axes.add_patch, maxes.Axes.plot = sc_, ap_, pl_
                n0 = ctx.events.get('FitInfo.filter_table:post', 0)
                plot_params_1d(path, colnames[0], output_dir=os.path.join(d, 'p1d'), select_format=('N', 3), format='png', log_x=False)
                if ctx.events.get('FitInfo.filter_table:post', 0) > n0:
                    ctx.event('plot_params:table-checked'); ctx.event('plot_params:observed')
                patches = list(drawn['patch'])
                drawn['patch'] = []
                n0 = ctx.events.get('FitInfo.filter_table:post', 0)
                plot_params_2d(list(infos), colnames[0], colnames[-1], output_dir=os.path.join(d, 'p2d'), select_format=('N', 2), format='png',
                               log_x=False, log_y=False)
                if ctx.events.get('FitInfo.filter_table:post', 0) > n0:
                    ctx.event('plot_params:table-checked'); ctx.event('plot_params:observed')
            except Exception as exc:
                ctx.raised(exc, 'plot_params:raised', 'parameter plot raised: %r' % (exc,), dict(perm=kind))
                patches = None
            finally:
                maxes.Axes.scatter, maxes.Axes.add_patch, maxes.Axes.plot = o_sc, o_ap, o_pl
            plt.close('all')
            if patches is not None:
                # 2-D: one scatter per source holding (x, y) of every selected fit's model
                pts = [p_ for p_ in drawn['scatter'] if p_[0].size]
                if len(pts) >= len(recs):
                    for r_, (xs, ys) in zip(recs, pts[-len(recs):]):
                        mn = [str(x_).strip() for x_ in r_['model_name'][:expected_kept(r_, ('N', 2))[0]]]
                        want = sorted((truth['rows'][m][colnames[0]], truth['rows'][m][colnames[-1]]) for m in mn if np.isfinite(truth['rows'][m][colnames[0]]) and np.isfinite(truth['rows'][m][colnames[-1]]))
                        got = sorted(g_ for g_ in zip(xs.tolist(), ys.tolist()) if np.isfinite(g_[0]) and np.isfinite(g_[1]))
                        ctx.event('plot_params_2d:points-checked'); ctx.event('plot_params:observed')
                        if len(got) != len(want) or any(abs(g_[0] - w_[0]) > 2e-6 * abs(w_[0]) + 1e-30 or abs(g_[1] - w_[1]) > 2e-6 * abs(w_[1]) + 1e-30
                                                          for g_, w_ in zip(got, want)):
                            ctx.violation('plot_params_2d:wrong-points', 'the points drawn for a source are not the parameter values of the models of its selected fits',
                                          dict(perm=kind, source=r_['source']['name'], drawn=got[:4], expected=want[:4]))
                            break
                # 1-D: the hatched histogram drawn for a source holds exactly its selected fits, each in the bin of its model's value
                polys = [p_ for p_ in patches if p_.ndim == 2 and p_.shape[0] >= 6]
                if len(polys) >= len(recs):
                    for r_, poly in zip(recs, polys[-len(recs):]):
                        cnt, _nd = expected_kept(r_, ('N', 3))
                        mn = [str(x_).strip() for x_ in r_['model_name'][:cnt]]
                        vals = np.array([truth['rows'][m][colnames[0]] for m in mn], float)
                        vals = vals[np.isfinite(vals)]
                        # heights per bin from the vertices, whatever order they are listed in: the height of bin [a, b] is the
                        # largest y that occurs both at x = a and at x = b
                        xs_ = np.unique(poly[:, 0])
                        if len(xs_) < 2:
                            continue
                        xe, xr = xs_[:-1], xs_[1:]
                        ye = np.array([max(set(np.round(poly[poly[:, 0] == a_, 1], 9)) & set(np.round(poly[poly[:, 0] == b_, 1], 9)), default=0.0) for a_, b_ in zip(xe, xr)])
                        counts = np.where(ye >= 0.5, np.round(ye), 0.0)
                        ctx.event('plot_params_1d:histogram-checked'); ctx.event('plot_params:observed')
                        bad = int(counts.sum()) != len(vals)
                        for v_ in vals:
                            inbin = (xe * (1 - 2e-6) - 1e-30 <= v_) & (v_ <= xr * (1 + 2e-6) + 1e-30) if np.all(xe >= 0) else (xe - 2e-6 * np.abs(xe) <= v_) & (v_ <= xr + 2e-6 * np.abs(xr))
                            if not np.any(inbin & (counts >= 1)):
                                bad = True
                        if bad:
                            ctx.violation('plot_params_1d:wrong-histogram', 'the histogram drawn for a source does not hold the parameter values of the models of its selected fits',
                                          dict(perm=kind, source=r_['source']['name'], values=vals, bin_left=xe, counts=counts))
                            break
        CUR.update(params=None)
        ctx.rmdir(d)


def replay(ctx, rec):
    ctx.inconclusive('replay: re-run ./check C09 with VERIF_SEED=%s' % rec.get('seed'))
