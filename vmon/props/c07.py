"""C07 — convolved-flux files keep model identity, identically in both package formats.

Twin packages (per-file and cube) built from one truth array are convolved by the real
convolve_model_dir; observed: files written (audit-hook trace), file contents (plain
astropy), post-condition on ConvolvedFluxes.sort_to_match, and fits from each variant
(memmap on/off) checked against the numeric reference of C01/C02.
"""
import os

import numpy as np
from astropy import units as u

from .. import gen, pkg, probe, convcheck, effects, fitcheck
from .. import oracles as O

SHARDS = {'quick': 4, 'thorough': 16, 'quick_timeout': 900, 'thorough_timeout': 3600}


def install(ctx):
    from sedfitter.convolved_fluxes import ConvolvedFluxes

    def stm_snapshot(self, requested_model_names):
        return (probe.arr(self.model_names), probe.arr(self.flux), probe.arr(self.error),
                np.array([str(x).strip() for x in requested_model_names]))

    def stm_post(self, requested_model_names, OLD, result):
        ctx.event('ConvolvedFluxes.sort_to_match:post')
        names0, fl0, er0, req = OLD.S
        names1 = np.array([str(x).strip() for x in self.model_names])
        wit = {'before': names0, 'requested': req, 'after': names1}
        if list(names1) != list(req):
            ctx.violation('sort_to_match:order', 'rows do not follow the requested (parameter-table) order', wit)
            return True
        idx = {str(n).strip(): i for i, n in enumerate(names0)}
        rows = [idx[n] for n in names1]
        if not probe.same(self.flux.value, fl0[rows]) or not probe.same(self.error.value, er0[rows]):
            ctx.violation('sort_to_match:rows-detached', 'after re-ordering, a row no longer holds the flux/error of the model it is labelled with', wit)
        return True

    probe.attach(ConvolvedFluxes, 'sort_to_match', ensure=stm_post, snapshot=stm_snapshot)


def tricky_names(rng, n):
    """names whose sorted(glob) order, table order and generation order all differ"""
    pool = ['b10', 'b2', 'a_9', 'A1', 'zz', 'm_10', 'm_9', 'B2', '0x', 'k', 'Z', 'aa', 'a', 'm1', 'M1']
    return [str(x) for x in rng.choice(pool, n, replace=False)]


def run(ctx):
    rng = ctx.rng
    install(ctx)
    from sedfitter.convolve import convolve_model_dir
    ctx.rule = ('twin packages (per-file + cube) from one truth: 1..8 models, 1..5 apertures, random parameter-table permutation, names whose glob order != '
                'table order != generation order, sub-directories, .fits.gz, SEDs stored in either spectral order (mixed within a package), cube in either '
                'order, 1..3 filters at once, float64 and float32 storage; then fits from {v1,v2}x{memmap on,off}. a case = one convolved file; '
                'non-trivial = >=2 models')
    ctx.assume('oracle: truth x exact-rational binned response; rtol 1e-9 (float64 packages) / 1e-5 (float32 storage)',
               'the cube format requires the parameter table in cube order (convolve_model_dir refuses otherwise)',
               'fits are compared with the numeric reference (C01/C02) per variant, which is what "agree" means up to the float32 memmap bound')
    ctx.require_events('file:checked', 'twin:compared', 'fit:checked', 'history:listing-made-before-adding-a-filter',
                       'file:checked:filter-added-after-listing', 'file:checked:table-rewritten-then-overwrite')     # (the sort_to_match probe is an extra observation point, not a required route)
    ctx.require_regimes('single-aperture:with-a-real-aperture', 'sed:n_wav-equals-n_ap', 'gz', 'subdir', 'mixed-order', 'cube:desc', 'cube:asc', 'f32', 'n_ap>1', 'n_ap=1', 'memmap:on', 'memmap:off', 'filters>1', 'filters-used-before', 'names:long', 'cube-unit:Jy', 'apertures:not-in-AU', 'fitters:several-alive', 'cube:table-order-differs-from-cube')
    n_pkg = 7 if ctx.quick else 120
    for ip in range(n_pkg):
        n_m = int(rng.integers(1, 9))
        # the classes every run must contain are laid out by index (shard, package), the rest is drawn
        slot = (ip + 3 * ctx.shard) % 7
        n_ap = 1 if slot == 0 else (int(rng.integers(2, 6)) if slot in (1, 2) else int(rng.integers(1, 6)))
        n_w = int(rng.choice([6, 15, 40]))
        if slot == 1 or (slot == 5 and n_ap >= 2):
            n_w = n_ap          # as many spectral points as apertures: the two axes of an SED's flux table have the same length
            ctx.regime('sed:n_wav-equals-n_ap')
        f32 = slot == 3 or (slot > 4 and bool(rng.random() < 0.3))
        r_ = 0.9 if slot == 4 else rng.random()
        if r_ < 0.5:
            names = tricky_names(rng, n_m)
        elif r_ < 0.75:
            names = gen.model_names(rng, n_m)
        else:          # long names: the format allows 30 characters
            names = [('L%02d_' % i) + ''.join(rng.choice(list('abcXYZ019_'), int(rng.integers(14, 25)))) for i in rng.permutation(n_m)]
            ctx.regime('names:long')
        lsub = int(rng.choice([0, 0, 1, 2]))
        if lsub and min(len(x) for x in names) < lsub:
            lsub = 0
        truth = convcheck.make_truth(rng, n_m, n_ap, n_w, names=names, f32=f32,
                                     params={'par1': np.arange(n_m) * 10.0 + 1, 'par2': -np.arange(n_m) - 0.5})
        if n_ap == 1 and ip % 2 == 0:
            # a single-aperture package whose SEDs carry a real aperture (not the 1e-30 placeholder): it is carried over like any other
            truth.apertures = np.array([float(gen.loguniform(rng, 50.0, 5000.0))])
            if f32:
                truth.apertures = pkg.r32(truth.apertures)
            ctx.regime('single-aperture:with-a-real-aperture')
        adep = n_ap > 1
        rt = 1e-5 if f32 else 1e-9
        d1, d2 = ctx.newdir('v1_'), ctx.newdir('v2_')
        order = list(rng.permutation(n_m))
        desc = rng.random(n_m) < 0.5
        gz = rng.random(n_m) < 0.3
        if f32:
            ctx.regime('f32')
            truth1_nu = pkg.r32(truth.nu)
        else:
            truth1_nu = truth.nu
        t1 = pkg.Truth(truth.names, truth.wav, truth.flux, truth.err, truth.apertures, truth.params, nu=truth1_nu)
        # the apertures of the SEDs may be tabulated in any length unit (the twins need not use the same one)
        apu1, apu2 = [str(x_) for x_ in rng.choice(['AU', 'pc', 'cm'], 2)] if (n_ap > 1 and not f32) else ('AU', 'AU')
        if slot == 2:
            apu1, apu2 = 'pc', 'cm'
        if apu1 != 'AU' or apu2 != 'AU':
            ctx.regime('apertures:not-in-AU')
        pkg.build_v1(d1, t1, table_order=order, aperture_dependent=adep, desc=desc, gz=gz, length_subdir=lsub, fmt='E' if f32 else 'D',
                     param_gz=bool(rng.random() < 0.3), pad_names=bool(rng.random() < 0.3), ap_unit=apu1)
        cdesc = bool(rng.random() < 0.5)
        cunit = 'mJy' if f32 else ('Jy' if slot == 1 else str(rng.choice(['mJy', 'Jy', 'uJy'])))
        pkg.build_v2(d2, truth, aperture_dependent=adep, descending_wav=cdesc, dtype='f4' if f32 else 'f8', unit=cunit, ap_unit=apu2)
        ctx.regime('cube-unit:' + cunit)
        ctx.regime('cube:desc' if cdesc else 'cube:asc')
        ctx.regime('n_ap>1' if n_ap > 1 else 'n_ap=1')
        if gz.any():
            ctx.regime('gz')
        if lsub:
            ctx.regime('subdir')
        if 0 < desc.sum() < n_m:
            ctx.regime('mixed-order')
        nfil = int(rng.integers(1, 4))
        if nfil > 1:
            ctx.regime('filters>1')
        filters = []
        for jf in range(nfil):
            fw, resp, central, kind = convcheck.make_filter_arrays(rng, truth.wav, kind=str(rng.choice(['inside', 'inside', 'contains', 'partial-lo'])))
            filters.append(convcheck.build_filter('T%d' % jf, fw, resp, central, descending_nu=bool(rng.random() < 0.5),
                                                  normalize=bool(rng.random() < 0.7), nu_unit=[None, u.GHz][int(rng.integers(2))],
                                                  cw_unit=[None, u.nm, u.mm][int(rng.integers(3))]))
        wit0 = dict(n_models=n_m, n_ap=n_ap, n_wav=n_w, names=names, table_order=order, desc=desc, gz=gz, length_subdir=lsub,
                    cube_desc=cdesc, f32=f32, sed_wav=truth.wav)
        if ip % 2 == 0:
            # history: the very same Filter objects are first used to convolve another package whose frequency grid has the
            # same length but different values; nothing may carry over to the packages convolved next
            decoy = convcheck.make_truth(rng, 2, n_ap, n_w, names=['dk1', 'dk2'], f32=False)
            dd = ctx.newdir('dk_')
            pkg.build_v2(dd, decoy) if rng.random() < 0.5 else pkg.build_v1(dd, decoy, fmt='D')
            try:
                convolve_model_dir(dd, filters)
                ctx.regime('filters-used-before')
            except Exception as exc:
                ctx.raised(exc, 'convolve-raised:decoy', 'convolve_model_dir raised: %r' % (exc,), wit0)
            ctx.rmdir(dd)
        import copy as _copy
        filters_before = [_copy.deepcopy(f_) for f_ in filters]      # references are computed from the curves as handed over
        if n_m >= 2 and ip % 3 == 1:
            # a cube package whose parameter table lists the models in another order than the cube: it is either refused, or
            # every row still holds the flux computed from the SED of the model it is labelled with
            d3 = ctx.newdir('v2p_')
            pkg.build_v2(d3, truth, aperture_dependent=adep, descending_wav=cdesc, dtype='f4' if f32 else 'f8', unit=cunit)
            for fn_ in os.listdir(d3):
                if fn_.startswith('parameters.fits'):
                    os.remove(os.path.join(d3, fn_))
            perm3 = list(rng.permutation(n_m))
            if perm3 == list(range(n_m)):
                perm3 = perm3[::-1]
            pkg.write_parameters(d3, [names[i] for i in perm3], {c_: np.asarray(v_)[perm3] for c_, v_ in truth.params.items()})
            ctx.regime('cube:table-order-differs-from-cube')
            try:
                convolve_model_dir(d3, filters)
                served = True
            except Exception:
                served = False
                ctx.event('cube:table-order-differs:refused')
            if served:
                for flt in filters_before:
                    ref_f, ref_e, R = convcheck.reference_convolution(truth, flt)
                    try:
                        g3 = convcheck.read_convolved_plain(os.path.join(d3, 'convolved', flt.name + '.fits'))
                    except Exception:
                        continue
                    if sorted(g3['names']) != sorted(names):
                        ctx.violation('row-holds-other-model:v2:permuted-table', 'a cube package with a permuted parameter table was convolved and the rows are not labelled with its models', dict(wit0, rows=g3['names']))
                        break
                    rows3 = [truth.index(n_) for n_ in g3['names']]
                    tol3 = (1e-4 if f32 else 1e-9) * np.abs(ref_f[rows3]) + (1e-7 if f32 else 1e-12) * np.sum(np.abs(truth.flux[rows3][:, :, ::-1] * R), axis=2)
                    if g3['flux'].shape != ref_f[rows3].shape or np.any(np.abs(g3['flux'] - ref_f[rows3]) > tol3):
                        ctx.violation('row-holds-other-model:v2:permuted-table', 'a cube package whose parameter table is in another order than the cube was convolved, and a row does not hold the flux computed from the SED it is labelled with',
                                      dict(wit0, table_order=[names[i] for i in perm3], rows=g3['names'], got=g3['flux'][0], expected=ref_f[rows3][0]))
                        break
            ctx.rmdir(d3)
        got = {}
        edge_tol = {}
        for style, d in (('v1', d1), ('v2', d2)):
            mm = bool(rng.random() < 0.5)
            try:
                with effects.trace() as tr:
                    convolve_model_dir(d, filters, memmap=mm)
            except Exception as exc:
                ctx.raised(exc, 'convolve-raised:' + style, 'convolve_model_dir raised: %r' % (exc,), dict(wit0, style=style))
                continue
            wrote = sorted(set(os.path.relpath(p, d) for p in tr.produced(under=d)))
            want = sorted('convolved/%s.fits' % f.name for f in filters)
            if not set(want) <= set(wrote):        # other files (logs, caches) are not what the property is about
                ctx.violation('files-written:' + style, 'convolve_model_dir did not write one file per filter',
                              dict(wit0, style=style, written=wrote, expected=want))
            expect_rows = [names[i] for i in order] if style == 'v1' else list(names)
            for flt in filters_before:
                ref_f, ref_e, R = convcheck.reference_convolution(t1 if style == 'v1' else truth, flt)
                try:
                    g = convcheck.read_convolved_plain(os.path.join(d, 'convolved', flt.name + '.fits'))
                except Exception as exc:
                    ctx.raised(exc, 'file-unreadable:' + style, 'convolved file cannot be read: %r' % (exc,), dict(wit0, style=style))
                    continue
                got[(style, flt.name)] = g
                wit = dict(wit0, style=style, filter=flt.name)
                ctx.event('file:checked')
                ctx.case(('file', ip, style, flt.name, ctx.shard), nontrivial=n_m >= 2,
                         sample=dict(style=style, rows=g['names'], table_order=expect_rows) if ip < 1 else None)
                if g['names'] != expect_rows:
                    ctx.violation('rows-not-in-package-order:' + style, 'rows do not follow the parameter-table / cube order',
                                  dict(wit, rows=g['names'], expected=expect_rows))
                    continue
                rows = [truth.index(n) for n in g['names']]
                if g['flux'].shape != (n_m, n_ap):
                    ctx.violation('file-shape:' + style, 'flux column has the wrong shape', dict(wit, shape=g['flux'].shape))
                    continue
                tolf = rt * np.abs(ref_f[rows]) + (1e-12 if not f32 else 1e-7) * np.sum(np.abs(truth.flux[rows][:, :, ::-1] * R), axis=2)
                tole = rt * np.abs(ref_e[rows]) + 1e-300
                if f32:
                    ef, ee = convcheck.float32_edge_tolerance(truth, flt)
                    tolf, tole = tolf + ef[rows], tole + ee[rows]
                edge_tol[(style, flt.name)] = (tolf, tole, rows)
                if np.any(np.abs(g['flux'] - ref_f[rows]) > tolf):
                    # is it a relabelling? (does some other row match)
                    relabel = any(np.all(np.abs(g['flux'][0] - ref_f[j]) <= tolf[0]) for j in range(n_m) if j != rows[0])
                    ctx.violation('row-holds-other-model:' + style if relabel else 'row-flux-wrong:' + style,
                                  'the row labelled X does not hold the flux computed from SED X', dict(wit, row0=g['names'][0], got=g['flux'][0], expected=ref_f[rows][0]))
                if np.any(np.abs(g['err'] - ref_e[rows]) > tole):
                    ctx.violation('row-error-wrong:' + style, 'the row labelled X does not hold the error computed from SED X',
                                  dict(wit, got=g['err'][0], expected=ref_e[rows][0]))
                if g['filtwav'] is None or abs(g['filtwav'] / flt.central_wavelength.to(u.micron).value - 1) > 1e-12:
                    ctx.violation('filtwav:' + style, 'central wavelength of the filter not carried over', dict(wit, got=g['filtwav']))
                if truth.apertures is not None:
                    apu = g['aperture_unit']
                    ga = None if g['apertures'] is None else (g['apertures'] * u.Unit(apu if apu not in (None, 'AU') else 'au')).to(u.au).value
                    if ga is None or not O.close(ga, truth.apertures, 1e-6 if f32 else 1e-12):
                        ctx.violation('apertures:' + style, 'SED apertures not carried over', dict(wit, got=g['apertures'], unit=apu))
        # twins
        for flt in filters:
            a, b = got.get(('v1', flt.name)), got.get(('v2', flt.name))
            if a is None or b is None:
                continue
            ctx.event('twin:compared')
            ra = {n: i for i, n in enumerate(a['names'])}
            rows = [ra[n] for n in b['names']] if sorted(a['names']) == sorted(b['names']) else None
            if rows is None:
                continue
            # both were compared with their own reference above; the twins may differ by the sum of those tolerances
            # (float32 storage: the per-file format stores frequencies in float32, the cube derives them from wavelengths)
            tfa, tea, ra = edge_tol.get(('v1', flt.name), (0, 0, None))
            tfb, teb, rb = edge_tol.get(('v2', flt.name), (0, 0, None))
            if ra is None or rb is None:
                continue
            inv_a = {r_: i_ for i_, r_ in enumerate(ra)}
            perm = [inv_a[r_] for r_ in rb]
            tf = np.asarray(tfa)[perm] + np.asarray(tfb)
            te = np.asarray(tea)[perm] + np.asarray(teb)
            if np.any(np.abs(a['flux'][rows] - b['flux']) > tf) or np.any(np.abs(a['err'][rows] - b['err']) > te):
                ctx.violation('twin-formats-differ', 'per-file and cube packages built from the same SEDs give different fluxes/errors',
                              dict(wit0, filter=flt.name, v1=a['flux'][rows][0], v2=b['flux'][0], v1_err=a['err'][rows][0], v2_err=b['err'][0]))

        # fits from each variant
        lw, lc = gen.make_law_arrays(rng, n=20, lo=0.04, hi=3000.0)
        law = gen.build_law(lw, lc)
        cen = np.array([f.central_wavelength.to(u.micron).value for f in filters])
        k = O.ext_pattern(lw, lc, cen)
        mode = '3d' if n_ap > 1 else '2d'
        convs = [convcheck.reference_convolution(truth, f)[0] for f in filters]     # [m, a] each
        conv = np.stack(convs, axis=2)                                               # [m, a, f]
        if np.all(conv > 0) and np.max(np.abs(k)) < 10 and ((mode == '2d' and nfil >= 2 and np.ptp(k) > 1e-2) or (mode == '3d' and np.max(np.abs(k)) > 1e-2)):
            if mode == '2d':
                theta, dr = np.ones(nfil), (1.0, 2.0)
            else:
                dmin = 1.0
                dr = (dmin, dmin * 10 ** 0.3)
                theta = np.array([float(gen.loguniform(rng, truth.apertures[0] * 1.01, truth.apertures[-1])) for _ in range(nfil)]) / (dmin * 1000)
            m0 = int(rng.integers(n_m))
            a0 = float(rng.uniform(0, 8))
            # all fitters are built first and stay alive while each is used (plus one more memory-mapped fitter on the cube package
            # with the filters in reverse order, built last): "fits made from either, memory-mapped or not, agree" whatever else is alive
            built = []
            for style, d in (('v1', d1), ('v2', d2)):
                for mm in (True, False):
                    try:
                        built.append((style, d, mm, gen.make_fitter([f.name for f in filters], theta, d, law, (0.0, 30.0), dr, use_memmap=mm)))
                    except Exception as exc:
                        ctx.raised(exc, 'fitter-raised:' + style, 'Fitter() on the convolved package raised: %r' % (exc,), dict(wit0, style=style))
            try:
                extra_ft = gen.make_fitter([f.name for f in filters][::-1], theta[::-1], d2, law, (0.0, 30.0), dr, use_memmap=True)
                if nfil > 1:
                    ctx.regime('fitters:several-alive')
            except Exception as exc:
                extra_ft = None
            for style, d, mm, ft in built:
                if True:
                    ctx.regime('memmap:on' if mm else 'memmap:off')
                    if mode == '2d':
                        logm, logd = np.log10(conv[:, 0, :]), None
                        pred = logm[m0] + a0 * k - 2 * 0.3
                        valid = np.array([1] * nfil)
                    else:
                        # the reference distance grid is built from the range and the package's step (C02 decides the grid itself)
                        L_ = np.log10(dr[1] / dr[0])
                        nref_ = int(np.ceil(1 + L_ / 0.02 - 1e-9))
                        dist = 10 ** np.linspace(np.log10(dr[0]), np.log10(dr[1]), nref_)
                        got_d = np.asarray(ft.models.distances.to(u.kpc).value, float)
                        if got_d.shape != dist.shape or np.any(np.abs(got_d / dist - 1) > 1e-9):
                            ctx.event('distance-grid-differs-from-reference (decided by C02)')
                            dist = got_d
                        logm, logd = fitcheck.grid_logm(conv, truth.apertures, theta, dist), np.log10(dist)
                        pred = np.asarray(logm[m0, len(dist) // 2], float) + a0 * k
                        valid = np.array([1] * nfil)
                    flux = 10.0 ** pred * (1 + 0.02 * np.arange(nfil))
                    err = flux * 0.1
                    if mode == '2d':
                        _, _, w = O.transform(valid, flux, err)
                        wk = np.sum(w * k) / np.sum(w)
                        if np.sum(w * (k - wk) ** 2) / np.sum(w * k ** 2) < 1e-6:
                            continue
                    delta = rt * 2 + (3e-7 * (1 + float(np.max(np.abs(np.asarray(logm, float))))) if ((mm and style == 'v2') or fitcheck.holds_float32(ft)) else 0.0)       # (memory-mapped storage may be single precision even if it is handed on in double)
                    tr = fitcheck.GridTruth(names, logm, k, 0.0, 30.0, delta=delta, logd=logd, tag=style)
                    try:
                        info = ft.fit(gen.build_source('s', valid, flux, err))
                    except Exception as exc:
                        ctx.raised(exc, 'fit-raised:' + style, 'fit raised: %r' % (exc,), dict(wit0, style=style))
                        continue
                    wit = dict(wit0, style=style, memmap=mm, valid=valid, flux=flux, error=err)
                    if mode == '2d':
                        fitcheck.check_fit2d(ctx, tr, valid, flux, err, info, wit, keyp='fit-from-%s' % style)
                    else:
                        fitcheck.check_fit3d(ctx, tr, valid, flux, err, info, wit, keyp='fit-from-%s' % style)
                    ctx.event('fit:checked')
        # history on the same two packages, in the same process: a result is listed first (the post-processing step reads the
        # package's parameter table), then one more filter is convolved into each package, then the per-file package's parameter
        # table is rewritten in another row order and the filter convolved again (overwrite=True): every file written must follow
        # the table / cube order the package has *at that moment*, and hold in each row the flux of the SED it is labelled with
        if n_m >= 2:
            fwx, respx, centralx, _ = convcheck.make_filter_arrays(rng, truth.wav, kind='inside')
            fx = convcheck.build_filter('TX', fwx, respx, centralx, descending_nu=bool(rng.random() < 0.5))
            fx_before = _copy.deepcopy(fx)
            order_b = list(rng.permutation(n_m))
            if order_b == list(order):
                order_b = order_b[::-1]
            try:
                from sedfitter import write_parameters
                lw_, lc_ = gen.make_law_arrays(rng, n=20, lo=0.04, hi=3000.0)
                for d in (d1, d2):
                    th_ = np.ones(nfil) if n_ap == 1 else np.full(nfil, float(truth.apertures[-1]) / 1000.0)
                    ft_ = gen.make_fitter([f.name for f in filters], th_, d, gen.build_law(lw_, lc_), (0.0, 10.0), (1.0, 2.0), use_memmap=False)
                    info_ = ft_.fit(gen.build_source('lst', [1] * nfil, [1.0] * nfil, [0.1] * nfil))
                    write_parameters(info_, os.path.join(d, 'listing.txt'), select_format=('N', 1))
                ctx.event('history:listing-made-before-adding-a-filter')
            except Exception:
                ctx.event('history:listing-not-available')

            def check_added(style, d, expect_rows, key):
                wit = dict(wit0, style=style, filter='TX', history=key)
                ref_f, ref_e, R = convcheck.reference_convolution(t1 if style == 'v1' else truth, fx_before)
                try:
                    g = convcheck.read_convolved_plain(os.path.join(d, 'convolved', 'TX.fits'))
                except Exception as exc:
                    ctx.raised(exc, 'file-unreadable:%s:%s' % (style, key), 'convolved file cannot be read: %r' % (exc,), wit)
                    return
                ctx.event('file:checked:' + key)
                if g['names'] != expect_rows:
                    ctx.violation('rows-not-in-package-order:%s:%s' % (style, key), 'rows do not follow the parameter-table / cube order the package has when it is convolved',
                                  dict(wit, rows=g['names'], expected=expect_rows))
                    return
                rows = [truth.index(n) for n in g['names']]
                tolf = rt * np.abs(ref_f[rows]) + (1e-12 if not f32 else 1e-7) * np.sum(np.abs(truth.flux[rows][:, :, ::-1] * R), axis=2)
                if f32:
                    tolf = tolf + convcheck.float32_edge_tolerance(truth, fx_before)[0][rows]
                if g['flux'].shape != (n_m, n_ap) or np.any(np.abs(g['flux'] - ref_f[rows]) > tolf):
                    ctx.violation('row-flux-wrong:%s:%s' % (style, key), 'the row labelled X does not hold the flux computed from SED X',
                                  dict(wit, row0=g['names'][0], got=g['flux'][0], expected=ref_f[rows][0]))

            for style, d in (('v1', d1), ('v2', d2)):
                try:
                    convolve_model_dir(d, [fx])
                except Exception as exc:
                    ctx.raised(exc, 'convolve-raised:filter-added-after-listing:' + style, 'convolve_model_dir raised when one more filter was added: %r' % (exc,),
                               dict(wit0, style=style))
                    continue
                check_added(style, d, [names[i] for i in order] if style == 'v1' else list(names), 'filter-added-after-listing')
            for fn_ in os.listdir(d1):
                if fn_.startswith('parameters.fits'):
                    os.remove(os.path.join(d1, fn_))
            pkg.write_parameters(d1, [names[i] for i in order_b], {c_: np.asarray(v_)[order_b] for c_, v_ in truth.params.items()})
            try:
                convolve_model_dir(d1, [fx], overwrite=True)
            except Exception as exc:
                ctx.raised(exc, 'convolve-raised:table-rewritten:v1', 'convolve_model_dir raised after the parameter table was rewritten in another order: %r' % (exc,), wit0)
            else:
                check_added('v1', d1, [names[i] for i in order_b], 'table-rewritten-then-overwrite')
        ctx.rmdir(d1)
        ctx.rmdir(d2)


def replay(ctx, rec):
    ctx.inconclusive('replay: re-run ./check C07 with VERIF_SEED=%s' % rec.get('seed'))
