"""C11 — fits do not depend on labelling, ordering, units of brightness, or history.

Online monitor: snapshot/post-condition on Fitter.fit (source and fitter state bit-identical
before/after every fit).  Offline: metamorphic pairs compared per model name.
"""
import itertools
import math

import numpy as np
from astropy import units as u

from .. import gen, pkg, probe, fitcheck
from .. import oracles as O

SHARDS = {'quick': 4, 'thorough': 16, 'quick_timeout': 900, 'thorough_timeout': 3600}


def fitter_state(f):
    return {'fluxes': probe.arr(f.models.fluxes), 'av_law': probe.arr(f.av_law), 'sc_law': probe.arr(f.sc_law),
            'names': probe.arr(f.models.names),
            'filters': repr([(x.get('name'), x['aperture_arcsec'], str(x['wav'])) for x in f.filters]),
            'logd': probe.arr(f.models.logd)}


def install(ctx):
    from sedfitter.fit import Fitter

    def fit_snapshot(self, source):
        return (probe.canon_source(source), fitter_state(self))

    def fit_post(self, source, OLD, result):
        ctx.event('Fitter.fit:post')
        s0, f0 = OLD.S
        s1, f1 = probe.canon_source(source), fitter_state(self)
        for k in s0:
            same = probe.same(s0[k], s1[k]) if isinstance(s0[k], np.ndarray) else s0[k] == s1[k]
            if not same:
                ctx.violation('fit-modifies-source', 'Fitter.fit modified the source it was given (%s)' % k,
                              {'before': s0, 'after': s1})
        for k in f0:
            same = probe.same(f0[k], f1[k]) if isinstance(f0[k], np.ndarray) or f0[k] is None else f0[k] == f1[k]
            if not same:
                ctx.violation('fit-modifies-fitter', 'Fitter.fit modified the fitter state (%s)' % k, {'field': k})
        if result.source is not source:
            ctx.event('result.source is a different object')
        return True

    probe.attach(Fitter, 'fit', ensure=fit_post, snapshot=fit_snapshot)


def by_name(info):
    return {str(n).strip(): (float(info.av[i]), float(info.sc[i]), float(info.chi2[i])) for i, n in enumerate(info.model_name)}


def tolerances(valid, flux, err, k, mode):
    _, _, w = O.transform(valid, flux, err)
    fit = w > 0
    if mode == '2d':
        wk = np.sum(w[fit] * k[fit]) / np.sum(w[fit])
        cond = np.sum(w[fit] * (k[fit] - wk) ** 2) / np.sum(w[fit] * k[fit] ** 2)
    else:
        cond = 1.0 if np.any(np.abs(k[fit]) > 1e-3) else 0.0
    return float(cond), float(np.sum(w[fit]))


def compare(ctx, key, what, a, b, cond, wsum, wit, shift=0.0):
    """a, b: name -> (av, sc, chi2); b's scale expected = a's + shift"""
    ptol = 1e-9 / cond
    for name in a:
        if name not in b:
            ctx.violation(key + ':names', what + ': model missing from the paired result', dict(wit, model=name))
            return False
        av1, sc1, c1 = a[name]
        av2, sc2, c2 = b[name]
        ctol = 1e-9 * max(abs(c1), abs(c2)) + 1e-10 * wsum * (1 + sc1 * sc1) + 1e-12
        ok = abs(av1 - av2) <= ptol * (1 + abs(av1)) and abs(sc1 + shift - sc2) <= ptol * (1 + abs(sc1) + abs(shift)) \
            and (abs(c1 - c2) <= ctol or (c1 >= 1e29 and c2 >= 1e29))
        if not ok:
            ctx.violation(key, what, dict(wit, model=name, first=(av1, sc1, c1), second=(av2, sc2, c2), expected_shift=shift,
                                          cond=cond, ptol=ptol, ctol=ctol))
            return False
    return True


def make_setup(ctx, rng, mode, n_models, nb, resolved=False):
    d = ctx.newdir('c11')
    names = gen.model_names(rng, n_models)
    wav = gen.band_wavelengths(rng, nb)
    bn = ['K%d' % i for i in range(nb)]
    for _ in range(200):     # a law/band set with enough leverage on A_V in at least three bands (regular regressions exist)
        lw, lc = gen.make_law_arrays(rng, n=30, lo=0.1, hi=2000.0)
        k = O.ext_pattern(lw, lc, wav)
        if np.sum(np.abs(k) > 1e-2) >= 3 and np.ptp(k) > 0.05:
            break
        wav = gen.band_wavelengths(rng, nb)
    law = gen.build_law(lw, lc)
    if mode == '2d':
        conv = gen.conv_grid(rng, n_models, nb)
        aps = None
        gen.write_grid_v1(d, names, bn, wav, conv)
        theta = np.ones(nb)
        dr = (1.0, 2.0)
    else:
        aps = gen.aperture_table(rng, 4)
        conv = gen.conv_grid(rng, n_models, nb, n_ap=4)
        if resolved:
            # steep, band-dependent cumulative profiles so that remove_resolved excludes different (model, distance) pairs per band
            aps = np.array([50.0, 400.0, 3000.0, 20000.0])
            pw = rng.uniform(0.5, 5.0, (n_models, 1, nb))
            conv = conv[:, -1:, :] * (aps[None, :, None] / aps[-1]) ** pw
        gen.write_grid_v1(d, names, bn, wav, conv, apertures=aps, aperture_dependent=True, logd_step=0.1)
        theta = np.array([float(gen.loguniform(rng, aps[0] * 1.01, aps[-1] if not resolved else aps[2])) for _ in range(nb)]) / 1000.0
        dr = (1.0, 10 ** 0.55)
    return dict(dir=d, names=names, wav=wav, bn=bn, law=law, k=k, conv=conv, aps=aps, theta=theta, dr=dr, mode=mode,
                lw=lw, lc=lc)


def draw_source(rng, st, regular=True):
    nb = len(st['bn'])
    k = st['k']
    for _ in range(100):
        valid = gen.flags_with_fit(rng, nb, k, min_fit=2 if st['mode'] == '2d' else 1)
        m0 = int(rng.integers(len(st['names'])))
        pred = np.log10(st['conv'][m0, -1, :]) + float(rng.uniform(0, 10)) * k - 2 * float(rng.uniform(-1, 1))
        flux, err = gen.photometry_for(rng, valid, pred)
        nine = valid == 9
        flux[nine] = 10.0 ** pred[nine]
        err[nine] = 0.1 * flux[nine]
        cond, wsum = tolerances(valid, flux, err, k, st['mode'])
        if np.isfinite(cond) and cond >= 1e-6:
            return valid, flux, err, cond, wsum
    raise RuntimeError('no regular source')


def run(ctx):
    rng = ctx.rng
    install(ctx)
    from sedfitter.fit import Fitter
    ctx.rule = ('metamorphic pairs of Fitter.fit runs compared per model name: filter permutations (all 720 of 6 filters in thorough, sampled in '
                'quick), model-row permutations of the package (<=8 models), flux scaling over 8 decades (2-D), fit histories (all orderings of <=4 '
                'preceding fits, sampled up to 6) incl. bit-identical source and fitter state around every fit; a case = one pair; non-trivial = regular regression')
    ctx.assume('filter permutation re-associates sums: compared with 1e-9/cond on parameters and an objective-scaled tolerance on chi^2',
               'model permutation and history: bit-identical (NaN-aware)', 'tie order is free: comparison is per model name')
    ctx.require_events('Fitter.fit:post', 'pair:filter-permutation', 'pair:model-permutation', 'pair:flux-scaling', 'pair:history')
    ctx.require_regimes('mode:2d', 'mode:3d', 'history:remove_resolved-band-dependent')
    n_sets = 1 if ctx.quick else 4
    for iset in range(n_sets):
        for mode in ('2d', '3d'):
            ctx.regime('mode:' + mode)
            nb = 6
            st = make_setup(ctx, rng, mode, n_models=8, nb=nb)
            k = st['k']
            base = gen.make_fitter(st['bn'], st['theta'], st['dir'], st['law'], (-5.0, 40.0), st['dr'])
            sources = [draw_source(rng, st) for _ in range(6)]

            # ---- filter permutations -------------------------------------------------
            perms = list(itertools.permutations(range(nb)))
            if ctx.quick:
                sel = [perms[i] for i in rng.choice(len(perms), 40, replace=False)]
            else:
                sel = [p for i, p in enumerate(perms) if ctx.mine(i + iset)]
            ref = [by_name(base.fit(gen.build_source('s', v, f, e))) for (v, f, e, _, _) in sources[:2]]
            for p in sel:
                p = list(p)
                fp = gen.make_fitter([st['bn'][i] for i in p], st['theta'][p], st['dir'], st['law'], (-5.0, 40.0), st['dr'])
                for (v, f, e, cond, wsum), r0 in zip(sources[:2], ref):
                    r1 = by_name(fp.fit(gen.build_source('s', v[p], f[p], e[p])))
                    compare(ctx, 'filter-permutation-changes-fit', 'permuting filters (photometry permuted alike) changed the fit',
                            r0, r1, cond, wsum, dict(mode=mode, perm=p, valid=v, flux=f, error=e, k=k))
                    ctx.event('pair:filter-permutation')
                    ctx.case(('fperm', iset, mode, tuple(p), ctx.shard), nontrivial=True,
                             sample=dict(kind='filter-permutation', mode=mode, perm=p, valid=v) if len(ctx.samples) < 1 else None)

            # ---- model permutations --------------------------------------------------
            n_m = len(st['names'])
            for ip in range(6 if ctx.quick else 20):
                order = list(rng.permutation(n_m))
                d2 = ctx.newdir('c11p')
                gen.write_grid_v1(d2, st['names'], st['bn'], st['wav'], st['conv'], apertures=st['aps'],
                                  aperture_dependent=(mode == '3d'), logd_step=0.1, table_order=order)
                fp = gen.make_fitter(st['bn'], st['theta'], d2, st['law'], (-5.0, 40.0), st['dr'])
                for (v, f, e, cond, wsum) in sources[:3]:
                    r0 = by_name(base.fit(gen.build_source('s', v, f, e)))
                    r1 = by_name(fp.fit(gen.build_source('s', v, f, e)))
                    if mode == '2d':
                        bad = [n for n in r0 if not all((a == b) or (a != a and b != b) for a, b in zip(r0[n], r1.get(n, (None,) * 3)))]
                        if bad:
                            ctx.violation('model-permutation-changes-fit', 'permuting the models inside the package changed a model\'s fit',
                                          dict(mode=mode, order=order, model=bad[0], first=r0[bad[0]], second=r1.get(bad[0])))
                    else:
                        compare(ctx, 'model-permutation-changes-fit', 'permuting the models inside the package changed a model\'s fit',
                                r0, r1, max(cond, 1e-3), wsum, dict(mode=mode, order=order))
                    ctx.event('pair:model-permutation')
                    ctx.case(('mperm', iset, mode, ip, ctx.shard), nontrivial=True)
                ctx.rmdir(d2)

            # ---- flux scaling (2-D only) ---------------------------------------------
            if mode == '2d':
                for (v, f, e, cond, wsum) in sources:
                    r0 = by_name(base.fit(gen.build_source('s', v, f, e)))
                    for c in [1e-4, 1e-2, 0.5, 3.0, 1e2, 1e4] if ctx.quick else 10.0 ** rng.uniform(-4, 4, 12):
                        c = float(c)
                        f2, e2 = f.copy(), e.copy()
                        for j, fl in enumerate(v):
                            if fl in (1, 9, 0):
                                f2[j], e2[j] = f[j] * c, e[j] * c
                            elif fl in (2, 3):
                                f2[j] = f[j] * c
                            elif fl == 4:
                                f2[j] = f[j] + math.log10(c)
                        r1 = by_name(base.fit(gen.build_source('s', v, f2, e2)))
                        compare(ctx, 'flux-scaling-not-a-scale-shift', 'multiplying fluxes and errors by a constant did not shift scale by -0.5 log10(c) with A_V, chi^2 unchanged',
                                r0, r1, cond, wsum, dict(mode=mode, c=c, valid=v, flux=f, error=e), shift=-0.5 * math.log10(c))
                        ctx.event('pair:flux-scaling')
                        ctx.case(('scale', iset, c, ctx.shard, ctx.evaluations), nontrivial=True)

            # ---- histories -----------------------------------------------------------
            history_block(ctx, rng, st, sources, mode, iset, {})
            if mode == '3d':
                st_r = make_setup(ctx, rng, mode, n_models=8, nb=nb, resolved=True)
                src_r = []
                for _ in range(6):
                    v, f, e, cond, wsum = draw_source(rng, st_r)
                    v = v.copy()
                    drop = rng.random(nb) < 0.35          # different sources use different sets of filters
                    if np.sum(((v == 1) | (v == 4)) & ~drop) >= 1:
                        v[drop] = 0
                    src_r.append((v, f, e, cond, wsum))
                history_block(ctx, rng, st_r, src_r, mode, iset, dict(remove_resolved=True, use_memmap=False))
                ctx.rmdir(st_r['dir'])
            ctx.rmdir(st['dir'])


def history_block(ctx, rng, st, sources, mode, iset, fkw):
    if True:
        if True:
            def mk():
                return gen.make_fitter(st['bn'], st['theta'], st['dir'], st['law'], (-5.0, 40.0), st['dr'], **fkw)
            if fkw.get('remove_resolved'):
                ext = np.asarray(mk().models.extended)
                if ext.any() and len(set(tuple(ext[:, :, f].ravel()) for f in range(ext.shape[2]))) > 1:
                    ctx.regime('history:remove_resolved-band-dependent')
            target = sources[0]
            fresh = mk()
            want = probe.canon_info(fresh.fit(gen.build_source('t', *target[:3])))
            others = sources[1:]
            hists = []
            for L in range(1, 5 if not ctx.quick else 4):
                hists += list(itertools.permutations(range(len(others)), L))
            if ctx.quick:
                hists = [hists[i] for i in rng.choice(len(hists), 60, replace=False)]
            hists += [tuple(rng.integers(0, len(others), 6)) for _ in range(10)]
            shared = mk()
            for ih, h in enumerate(hists):
                ft = shared if ih % 2 else mk()
                for j in h:
                    ft.fit(gen.build_source('o%d' % j, *others[j][:3]))
                got = probe.canon_info(ft.fit(gen.build_source('t', *target[:3])))
                diffs = probe.same_canon(want, got)
                if diffs:
                    ctx.violation('history-dependent-fit', 'a fitter returned a different result for a source after fitting other sources first',
                                  dict(mode=mode, history=list(map(int, h)), differs=diffs, fitter_options=fkw))
                ctx.event('pair:history')
                ctx.case(('hist', iset, mode, tuple(map(int, h)), ih % 2, bool(fkw), ctx.shard), nontrivial=True)


def replay(ctx, rec):
    ctx.inconclusive('replay: re-run ./check C11 with VERIF_SEED=%s; the witness holds the literal inputs' % rec.get('seed'))
