"""C11 — fits do not depend on labelling, ordering, units of brightness, or history.

Online monitor: snapshot/post-condition on Fitter.fit (source and fitter state bit-identical
before/after every fit).  Offline: metamorphic pairs compared per model name.
"""
import itertools
import math

import numpy as np
from astropy import units as u

from .. import gen, pkg, probe, fitcheck
from .. import oracles as O

SHARDS = {'quick': 4, 'thorough': 16, 'quick_timeout': 900, 'thorough_timeout': 3600}


def fitter_state(f):
    return {'fluxes': probe.arr(f.models.fluxes), 'av_law': probe.arr(f.av_law), 'sc_law': probe.arr(f.sc_law),
            'names': probe.arr(f.models.names),
            'filters': repr([(x.get('name'), x['aperture_arcsec'], str(x['wav'])) for x in f.filters]),
            'logd': probe.arr(f.models.logd)}


def install(ctx):
    from sedfitter.fit import Fitter

    def safe_state(f):
        try:
            return fitter_state(f)
        except Exception:          # internals renamed / absent: only an observation point is lost
            return None

    def fit_snapshot(self, source):
        return (probe.canon_source(source), safe_state(self))

    def fit_post(self, source, OLD, result):
        ctx.event('Fitter.fit:post')
        s0, f0 = OLD.S
        s1, f1 = probe.canon_source(source), safe_state(self)
        for k in s0:
            same = probe.same(s0[k], s1[k]) if isinstance(s0[k], np.ndarray) else s0[k] == s1[k]
            if not same:
                ctx.violation('fit-modifies-source', 'Fitter.fit modified the source it was given (%s)' % k,
                              {'before': s0, 'after': s1})
        if f0 is None or f1 is None:
            ctx.event('fitter-state-unreadable')
            f0 = f1 = {}
        for k in f0:
            same = probe.same(f0[k], f1[k]) if isinstance(f0[k], np.ndarray) or f0[k] is None else f0[k] == f1[k]
            if not same:       # not part of the statement (a cache would be legitimate): history pairs decide
                ctx.event('fitter-state-changed-by-fit:' + k)
        if result.source is not source:
            ctx.event('result.source is a different object')
        return True

    probe.attach(Fitter, 'fit', ensure=fit_post, snapshot=fit_snapshot)


def by_name(info):
    return {str(n).strip(): (float(info.av[i]), float(info.sc[i]), float(info.chi2[i])) for i, n in enumerate(info.model_name)}


def fluxes_by_name(info):
    if info.model_fluxes is None:
        return None
    mf = np.asarray(info.model_fluxes, float)
    return {str(n).strip(): mf[i].copy() for i, n in enumerate(info.model_name)}


def compare_fluxes(ctx, key, what, a, b, perm, wit, tol=1e-9, shift=0.0):
    """a, b: name -> model_fluxes row (log10); b's row is expected to be a's row taken in order perm (+ shift)"""
    if a is None or b is None:
        if (a is None) != (b is None):
            ctx.violation(key + ':model-fluxes', what + ': model fluxes present in only one of the results', wit)
        return
    for name in a:
        if name not in b:
            continue
        x, y = a[name][perm] + shift, b[name]
        both = np.isfinite(x) & np.isfinite(y)
        if np.any(np.isfinite(x) != np.isfinite(y)) or np.any(np.abs(x[both] - y[both]) > tol * (1 + np.abs(x[both]) + abs(shift))):
            ctx.violation(key + ':model-fluxes', what + ' (model fluxes reported with the fit)', dict(wit, model=name, first=x, second=y))
            return


def tolerances(valid, flux, err, k, mode):
    _, _, w = O.transform(valid, flux, err)
    fit = w > 0
    if mode == '2d':
        wk = np.sum(w[fit] * k[fit]) / np.sum(w[fit])
        cond = np.sum(w[fit] * (k[fit] - wk) ** 2) / np.sum(w[fit] * k[fit] ** 2)
    else:
        cond = 1.0 if np.any(np.abs(k[fit]) > 1e-3) else 0.0
    return float(cond), float(np.sum(w[fit]))


def compare(ctx, key, what, a, b, cond, wsum, wit, shift=0.0):
    """a, b: name -> (av, sc, chi2); b's scale expected = a's + shift"""
    ptol = 1e-9 / cond
    for name in a:
        if name not in b:
            ctx.violation(key + ':names', what + ': model missing from the paired result', dict(wit, model=name))
            return False
        av1, sc1, c1 = a[name]
        av2, sc2, c2 = b[name]
        ctol = 1e-9 * max(abs(c1), abs(c2)) + 1e-10 * wsum * (1 + sc1 * sc1) + 1e-12
        ok = abs(av1 - av2) <= ptol * (1 + abs(av1)) and abs(sc1 + shift - sc2) <= ptol * (1 + abs(sc1) + abs(shift)) \
            and (abs(c1 - c2) <= ctol or (c1 >= 1e29 and c2 >= 1e29))
        if not ok:
            ctx.violation(key, what, dict(wit, model=name, first=(av1, sc1, c1), second=(av2, sc2, c2), expected_shift=shift,
                                          cond=cond, ptol=ptol, ctol=ctol))
            return False
    return True


def make_setup(ctx, rng, mode, n_models, nb, resolved=False, n_dist=7):
    d = ctx.newdir('c11')
    names = gen.model_names(rng, n_models)
    wav = gen.band_wavelengths(rng, nb)
    bn = ['K%d' % i for i in range(nb)]
    for _ in range(200):     # a law/band set with enough leverage on A_V in at least three bands (regular regressions exist)
        lw, lc = gen.make_law_arrays(rng, n=30, lo=0.1, hi=2000.0)
        k = O.ext_pattern(lw, lc, wav)
        if np.sum(np.abs(k) > 1e-2) >= 3 and np.ptp(k) > 0.05:
            break
        wav = gen.band_wavelengths(rng, nb)
    law = gen.build_law(lw, lc)
    # the convolved files of one package need not all be tabulated in the same unit
    funits = [['mJy', 'Jy', 'uJy'][int(x_)] for x_ in rng.integers(0, 3, nb)]
    funits[int(rng.integers(nb))] = 'Jy'
    funits[(funits.index('Jy') + 1) % nb] = 'mJy'
    if mode == '2d':
        conv = gen.conv_grid(rng, n_models, nb)
        aps = None
        gen.write_grid_v1(d, names, bn, wav, conv, flux_unit=funits)
        theta = np.ones(nb)
        dr = (1.0, 2.0)
    else:
        aps = gen.aperture_table(rng, 4)
        conv = gen.conv_grid(rng, n_models, nb, n_ap=4)
        if resolved:
            # steep, band-dependent cumulative profiles so that remove_resolved excludes different (model, distance) pairs per band
            aps = np.array([50.0, 400.0, 3000.0, 20000.0])
            pw = rng.uniform(0.5, 5.0, (n_models, 1, nb))
            conv = conv[:, -1:, :] * (aps[None, :, None] / aps[-1]) ** pw
        gen.write_grid_v1(d, names, bn, wav, conv, apertures=aps, aperture_dependent=True, logd_step=0.1, flux_unit=funits)
        theta = np.array([float(gen.loguniform(rng, aps[0] * 1.01, aps[-1] if not resolved else aps[2])) for _ in range(nb)]) / 1000.0
        dr = (1.0, 10 ** (0.1 * (n_dist - 1) - 0.05))          # n_dist trial distances with the package's step of 0.1
    return dict(dir=d, names=names, wav=wav, bn=bn, law=law, k=k, conv=conv, aps=aps, theta=theta, dr=dr, mode=mode,
                lw=lw, lc=lc, funits=funits)


DRAWS = [0, 0]


def draw_source(rng, st, regular=True):
    nb = len(st['bn'])
    k = st['k']
    for _ in range(100):
        valid = gen.flags_with_fit(rng, nb, k, min_fit=2 if st['mode'] == '2d' else 1)
        m0 = int(rng.integers(len(st['names'])))
        pred = np.log10(st['conv'][m0, -1, :]) + float(rng.uniform(0, 10)) * k - 2 * float(rng.uniform(-1, 1))
        flux, err = gen.photometry_for(rng, valid, pred)
        nine = valid == 9
        flux[nine] = 10.0 ** pred[nine]
        err[nine] = 0.1 * flux[nine]
        DRAWS[0] += 1
        if DRAWS[0] % 4 == 0 and nine.any():
            # a plot-only slot holding a placeholder instead of a measurement (-999, 0, NaN): it takes no part in any fit (C03), and
            # "never modifies the source it is given" covers these slots like any other
            ph = [-999.0, 0.0, float('nan'), -999.9][(DRAWS[0] // 4) % 4]
            flux[nine] = ph
            err[nine] = [ph, 1.0][(DRAWS[0] // 16) % 2]
            DRAWS[1] += 1
        cond, wsum = tolerances(valid, flux, err, k, st['mode'])
        if np.isfinite(cond) and cond >= 1e-6:
            return valid, flux, err, cond, wsum
    raise RuntimeError('no regular source')


def run(ctx):
    rng = ctx.rng
    install(ctx)
    from sedfitter.fit import Fitter
    ctx.rule = ('metamorphic pairs of Fitter.fit runs compared per model name: filter permutations (all 720 of 6 filters in thorough, sampled in '
                'quick), model-row permutations of the package (<=8 models), flux scaling over 8 decades (2-D), fit histories (all orderings of <=4 '
                'preceding fits, sampled up to 6) incl. bit-identical source and fitter state around every fit; a case = one pair; non-trivial = regular regression')
    ctx.assume('the convolved files of a package are tabulated in mixed units (mJy, Jy, uJy)', 'filter permutation re-associates sums: compared with 1e-9/cond on parameters and an objective-scaled tolerance on chi^2',
               'model permutation and history: bit-identical (NaN-aware)', 'tie order is free: comparison is per model name')
    ctx.require_events('Fitter.fit:post', 'pair:filter-permutation', 'pair:model-permutation', 'pair:flux-scaling', 'pair:history',
                       'history:same-flags-other-errors', 'history:two-live-fitters', 'pair:filter-permutation:remove_resolved',
                       'history:several-live-fitters-on-one-package', 'pair:filter-permutation:v2', 'pair:model-permutation:v2', 'source-arrays-edited-in-place')
    ctx.require_regimes('shape:models-equal-filters', 'shape:distances-equal-filters', 'source:placeholder-in-plot-only-slot', 'mode:2d', 'mode:3d', 'history:remove_resolved-band-dependent', 'history:v2-memmap')
    n_sets = 1 if ctx.quick else 4
    for iset in range(n_sets):
        for mode in ('2d', '3d'):
            ctx.regime('mode:' + mode)
            nb = 6
            # the sizes are laid out by shard so that the axes of the arrays involved coincide in length in some runs and differ in others:
            # as many models as filters, as many trial distances as filters, as many models as distances
            n_mod_, n_dist_ = [(8, 7), (6, 6), (7, 7), (6, 7)][(ctx.shard + iset) % 4]
            if n_mod_ == nb:
                ctx.regime('shape:models-equal-filters')
            if mode == '3d' and n_dist_ == nb:
                ctx.regime('shape:distances-equal-filters')
            st = make_setup(ctx, rng, mode, n_models=n_mod_, nb=nb, n_dist=n_dist_)
            k = st['k']
            base = gen.make_fitter(st['bn'], st['theta'], st['dir'], st['law'], (-5.0, 40.0), st['dr'])
            sources = [draw_source(rng, st) for _ in range(6)]

            # ---- filter permutations -------------------------------------------------
            perms = list(itertools.permutations(range(nb)))
            if ctx.quick:
                sel = [perms[i] for i in rng.choice(len(perms), 40, replace=False)]
            else:
                sel = [p for i, p in enumerate(perms) if ctx.mine(i + iset)]
            ref = []
            for (v, f, e, _, _) in sources[:2]:
                i0 = base.fit(gen.build_source('s', v, f, e))
                ref.append((by_name(i0), fluxes_by_name(i0)))
            for p in sel:
                p = list(p)
                fp = gen.make_fitter([st['bn'][i] for i in p], st['theta'][p], st['dir'], st['law'], (-5.0, 40.0), st['dr'])
                for (v, f, e, cond, wsum), (r0, m0) in zip(sources[:2], ref):
                    i1 = fp.fit(gen.build_source('s', v[p], f[p], e[p]))
                    r1 = by_name(i1)
                    wit_p = dict(mode=mode, perm=p, valid=v, flux=f, error=e, k=k)
                    if compare(ctx, 'filter-permutation-changes-fit', 'permuting filters (photometry permuted alike) changed the fit',
                               r0, r1, cond, wsum, wit_p):
                        compare_fluxes(ctx, 'filter-permutation-changes-fit', 'permuting filters (photometry permuted alike) changed the fit',
                                       m0, fluxes_by_name(i1), p, wit_p, tol=50e-9 / cond * max(1.0, float(np.max(np.abs(k)))))
                    ctx.event('pair:filter-permutation')
                    ctx.case(('fperm', iset, mode, tuple(p), ctx.shard), nontrivial=True,
                             sample=dict(kind='filter-permutation', mode=mode, perm=p, valid=v) if len(ctx.samples) < 1 else None)

            # ---- model permutations --------------------------------------------------
            n_m = len(st['names'])
            for ip in range(6 if ctx.quick else 20):
                order = list(rng.permutation(n_m))
                d2 = ctx.newdir('c11p')
                gen.write_grid_v1(d2, st['names'], st['bn'], st['wav'], st['conv'], apertures=st['aps'],
                                  aperture_dependent=(mode == '3d'), logd_step=0.1, table_order=order, flux_unit=st['funits'])
                fp = gen.make_fitter(st['bn'], st['theta'], d2, st['law'], (-5.0, 40.0), st['dr'])
                for (v, f, e, cond, wsum) in sources[:3]:
                    i0 = base.fit(gen.build_source('s', v, f, e))
                    i1 = fp.fit(gen.build_source('s', v, f, e))
                    r0, r1 = by_name(i0), by_name(i1)
                    compare_fluxes(ctx, 'model-permutation-changes-fit', 'permuting the models inside the package changed a model\'s fit',
                                   fluxes_by_name(i0), fluxes_by_name(i1), slice(None), dict(mode=mode, order=order), tol=50e-9 / max(cond, 1e-3) * max(1.0, float(np.max(np.abs(k)))))
                    if True:
                        compare(ctx, 'model-permutation-changes-fit', 'permuting the models inside the package changed a model\'s fit',
                                r0, r1, max(cond, 1e-3), wsum, dict(mode=mode, order=order))
                    ctx.event('pair:model-permutation')
                    ctx.case(('mperm', iset, mode, ip, ctx.shard), nontrivial=True)
                ctx.rmdir(d2)

            # ---- flux scaling (2-D only) ---------------------------------------------
            if mode == '2d':
                for (v, f, e, cond, wsum) in sources:
                    i0 = base.fit(gen.build_source('s', v, f, e))
                    r0, m0 = by_name(i0), fluxes_by_name(i0)
                    live_src = None
                    for c in [1e-4, 1e-2, 0.5, 3.0, 1e2, 1e4] if ctx.quick else 10.0 ** rng.uniform(-4, 4, 12):
                        c = float(c)
                        f2, e2 = f.copy(), e.copy()
                        for j, fl in enumerate(v):
                            if fl in (1, 9, 0):
                                f2[j], e2[j] = f[j] * c, e[j] * c
                            elif fl in (2, 3):
                                f2[j] = f[j] * c
                            elif fl == 4:
                                f2[j] = f[j] + math.log10(c)
                        if live_src is None or len(live_src.flux) != len(f2) or not probe.same(np.asarray(live_src.valid), v):
                            live_src = gen.build_source('s', v, f2, e2)
                        else:
                            # the same Source object as for the previous constant, its arrays changed with augmented assignment (s.flux *= c:
                            # same array object, assigned back through the attribute): it has been fitted before, nothing remembered from then may be used
                            live_src.flux -= live_src.flux          # (x - x = 0 and 0 + y = y are exact: the arrays end up holding f2, e2)
                            live_src.flux += f2
                            live_src.error -= live_src.error
                            live_src.error += e2
                            ctx.event('source-arrays-edited-in-place')
                        i1 = base.fit(live_src)
                        r1 = by_name(i1)
                        compare(ctx, 'flux-scaling-not-a-scale-shift', 'multiplying fluxes and errors by a constant did not shift scale by -0.5 log10(c) with A_V, chi^2 unchanged',
                                r0, r1, cond, wsum, dict(mode=mode, c=c, valid=v, flux=f, error=e), shift=-0.5 * math.log10(c))
                        compare_fluxes(ctx, 'flux-scaling-not-a-scale-shift', 'multiplying fluxes and errors by a constant did not shift the fitted model fluxes by log10(c)',
                                       m0, fluxes_by_name(i1), slice(None), dict(mode=mode, c=c, valid=v, flux=f, error=e),
                                       tol=50e-9 / cond * max(1.0, float(np.max(np.abs(k)))), shift=math.log10(c))
                        ctx.event('pair:flux-scaling')
                        ctx.case(('scale', iset, c, ctx.shard, ctx.evaluations), nontrivial=True)

            # ---- histories -----------------------------------------------------------
            # a second live fitter on another package / law / filter set, used between the fits of the histories
            st_o = make_setup(ctx, rng, mode, n_models=5, nb=4)
            other = (gen.make_fitter(st_o['bn'], st_o['theta'], st_o['dir'], st_o['law'], (0.0, 20.0), st_o['dr']),
                     [draw_source(rng, st_o) for _ in range(3)])
            history_block(ctx, rng, st, sources, mode, iset, {}, other=other)
            # the same grid as a cube package with single-precision tables (memory-mapped by default)
            d_v2 = ctx.newdir('c11v2')
            # (the cube itself is tabulated at the band wavelengths and holds the same values, so that a band can be given to the fitter
            #  by name or as a wavelength)
            ow_ = np.argsort(st['wav'])
            gen.write_grid_v2(d_v2, st['names'], st['bn'], st['wav'], st['conv'], apertures=st['aps'],
                              aperture_dependent=(mode == '3d'), logd_step=0.1, fmt='E',
                              cube_wav=np.asarray(st['wav'], float)[ow_], cube=np.asarray(st['conv'], float)[:, :, ow_],
                              cube_unc=np.asarray(st['conv'], float)[:, :, ow_] * 0.01)
            st_v2 = dict(st, dir=d_v2)
            ctx.regime('history:v2-memmap')
            history_block(ctx, rng, st_v2, sources, mode, iset, {}, other=other, tag='v2-memmap')
            history_block(ctx, rng, st_v2, sources, mode, iset, dict(use_memmap=False), other=None, tag='v2-nomemmap')
            # several fitters alive at once on the memory-mapped cube package, each with its own filter order: constructing and
            # using the others is part of every fitter's history, and each must keep answering as it did when it was alone
            live = []
            v, f, e, cond, wsum = sources[0]
            for p in [list(range(nb))] + [list(rng.permutation(nb)) for _ in range(3)]:
                # every other band is given as its wavelength (in micron / nm) instead of its name: a list mixing the two kinds, in any order
                mixed_ = [st['bn'][i] if i % 2 == 0 else (float(st['wav'][i]) * u.micron).to([u.micron, u.nm][(i // 2) % 2]) for i in p]
                fp = gen.make_fitter(mixed_, st['theta'][p], d_v2, st['law'], (-5.0, 40.0), st['dr'])
                live.append((p, fp, probe.canon_info(fp.fit(gen.build_source('s', v[p], f[p], e[p])), with_source=False)))
            # ... and they must agree with each other (filter permutation on the cube/memory-mapped package)
            r_first = by_name(live[0][1].fit(gen.build_source('s', v, f, e)))
            for (p, fp, _first) in live[1:]:
                r_p = by_name(fp.fit(gen.build_source('s', v[p], f[p], e[p])))
                compare(ctx, 'filter-permutation-changes-fit', 'permuting filters (photometry permuted alike) changed the fit (cube package, memory-mapped)',
                        r_first, r_p, cond, wsum, dict(mode=mode, perm=p, valid=v, flux=f, error=e, package='v2-memmap'))
                ctx.event('pair:filter-permutation:v2')
            # model rows permuted inside the cube package
            order2 = list(rng.permutation(len(st['names'])))
            d_v2p = ctx.newdir('c11v2p')
            gen.write_grid_v2(d_v2p, [st['names'][i] for i in order2], st['bn'], st['wav'], st['conv'][order2], apertures=st['aps'],
                              aperture_dependent=(mode == '3d'), logd_step=0.1, fmt='E',
                              cube_wav=np.asarray(st['wav'], float)[ow_], cube=np.asarray(st['conv'], float)[order2][:, :, ow_],
                              cube_unc=np.asarray(st['conv'], float)[order2][:, :, ow_] * 0.01)
            mixed0_ = [st['bn'][i] if i % 2 == 0 else (float(st['wav'][i]) * u.micron).to([u.micron, u.nm][(i // 2) % 2]) for i in range(nb)]
            fpm = gen.make_fitter(mixed0_, st['theta'], d_v2p, st['law'], (-5.0, 40.0), st['dr'])
            r_perm = by_name(fpm.fit(gen.build_source('s', v, f, e)))
            compare(ctx, 'model-permutation-changes-fit', 'permuting the models inside the package changed a model\'s fit (cube package, memory-mapped)',
                    r_first, r_perm, max(cond, 1e-3), wsum, dict(mode=mode, order=order2, package='v2-memmap'))
            ctx.event('pair:model-permutation:v2')
            del fpm
            ctx.rmdir(d_v2p)
            for (p, fp, first) in live[::-1] + live:
                again = probe.canon_info(fp.fit(gen.build_source('s', v[p], f[p], e[p])), with_source=False)
                diffs = probe.same_canon(first, again)
                ctx.event('history:several-live-fitters-on-one-package')
                if diffs:
                    ctx.violation('history-dependent-fit:other-live-fitter', 'a fitter returned a different result for a source after other fitters were constructed and used on the same package',
                                  dict(mode=mode, filter_order=p, differs=diffs, package='v2-memmap'))
                    break
                ctx.case(('live', iset, mode, tuple(p), ctx.shard, ctx.evaluations), nontrivial=True)
            del live
            ctx.rmdir(d_v2)
            ctx.rmdir(st_o['dir'])
            if mode == '3d':
                st_r = make_setup(ctx, rng, mode, n_models=8, nb=nb, resolved=True)
                src_r = []
                for _ in range(6):
                    v, f, e, cond, wsum = draw_source(rng, st_r)
                    v = v.copy()
                    drop = rng.random(nb) < 0.35          # different sources use different sets of filters
                    if np.sum(((v == 1) | (v == 4)) & ~drop) >= 1:
                        v[drop] = 0
                    src_r.append((v, f, e, cond, wsum))
                history_block(ctx, rng, st_r, src_r, mode, iset, dict(remove_resolved=True, use_memmap=False))
                base_r = gen.make_fitter(st_r['bn'], st_r['theta'], st_r['dir'], st_r['law'], (-5.0, 40.0), st_r['dr'], remove_resolved=True)
                for ip in range(6 if ctx.quick else 30):
                    p = list(rng.permutation(nb))
                    fp = gen.make_fitter([st_r['bn'][i] for i in p], st_r['theta'][p], st_r['dir'], st_r['law'], (-5.0, 40.0), st_r['dr'],
                                         remove_resolved=True)
                    for (v, f, e, cond, wsum) in src_r[:2]:
                        r0 = by_name(base_r.fit(gen.build_source('s', v, f, e)))
                        r1 = by_name(fp.fit(gen.build_source('s', v[p], f[p], e[p])))
                        fin = {n: x for n, x in r0.items() if np.isfinite(x[2])}
                        if set(n for n, x in r1.items() if np.isfinite(x[2])) != set(fin):
                            ctx.violation('filter-permutation-changes-fit:resolved-set', 'permuting filters changed which models are excluded as resolved',
                                          dict(mode=mode, perm=p, valid=v))
                        else:
                            compare(ctx, 'filter-permutation-changes-fit', 'permuting filters (photometry permuted alike) changed the fit (remove_resolved)',
                                    fin, r1, max(cond, 1e-3), wsum, dict(mode=mode, perm=p, valid=v, flux=f, error=e, remove_resolved=True))
                        ctx.event('pair:filter-permutation:remove_resolved')
                        ctx.case(('fperm-r', iset, ip, ctx.shard, ctx.evaluations), nontrivial=True)
                ctx.rmdir(st_r['dir'])
            ctx.rmdir(st['dir'])


def history_block(ctx, rng, st, sources, mode, iset, fkw, other=None, tag=''):
    if True:
        if True:
            def mk():
                return gen.make_fitter(st['bn'], st['theta'], st['dir'], st['law'], (-5.0, 40.0), st['dr'], **fkw)
            if fkw.get('remove_resolved'):
                try:
                    ext = np.asarray(mk().models.extended)
                    if ext.any() and len(set(tuple(ext[:, :, f].ravel()) for f in range(ext.shape[2]))) > 1:
                        ctx.regime('history:remove_resolved-band-dependent')
                except Exception:
                    # the mask is an internal: the set-up (steep band-dependent profiles) is what makes the exclusion band-dependent
                    ctx.regime('history:remove_resolved-band-dependent')
                    ctx.event('resolved-mask-unreadable')
            target = sources[0]
            fresh = mk()
            want = probe.canon_info(fresh.fit(gen.build_source('t', *target[:3])))
            others = list(sources[1:])
            # sources with the target's flags but other errors / fluxes (anything remembered per flag pattern would show)
            tv, tf, te = target[:3]
            for _ in range(2):
                f2, e2 = tf.copy(), te.copy()
                reg = (tv == 1) | (tv == 9) | (tv == 0)
                e2[reg] = te[reg] * rng.uniform(0.2, 5.0, int(reg.sum()))
                f2[reg] = tf[reg] * rng.uniform(0.5, 2.0, int(reg.sum()))
                others.append((tv.copy(), f2, e2))
            ctx.event('history:same-flags-other-errors')
            hists = []
            for L in range(1, 5 if not ctx.quick else 4):
                hists += list(itertools.permutations(range(len(others)), L))
            if ctx.quick:
                hists = [hists[i] for i in rng.choice(len(hists), 60, replace=False)]
            else:
                # all orderings of up to 4 of the first five other sources on the plain package; the rest sampled
                full = [h for h in hists if max(h) < 5] if not tag and not fkw else []
                fs = set(full)
                rest = [h for h in hists if h not in fs]
                hists = full + [rest[i] for i in rng.choice(len(rest), min(len(rest), 150), replace=False)]
            hists += [tuple(rng.integers(0, len(others), 6)) for _ in range(10)]
            shared = mk()
            for ih, h in enumerate(hists):
                ft = shared if ih % 2 else mk()
                if ih % 5 == 0 and len(h) < 6:
                    h = tuple(h) + (len(others) - 1 - (ih // 5) % 2,)
                try:
                  for j in h:
                    ft.fit(gen.build_source('o%d' % j, *others[j][:3]))
                    if other is not None and rng.random() < 0.5:      # a second live fitter (another package, law, filters) used in between
                        of, osrc = other
                        of.fit(gen.build_source('x', *osrc[int(rng.integers(len(osrc)))][:3]))
                        ctx.event('history:two-live-fitters')
                  got = probe.canon_info(ft.fit(gen.build_source('t', *target[:3])))
                except Exception as exc:
                    # the same sources are fitted without complaint by a fresh fitter: a raise here depends on the history
                    ctx.raised(exc, 'history-dependent-fit:raised', 'a fit raised on a fitter that had fitted other sources before (a fresh fitter fits the same source): %r' % (exc,),
                               dict(mode=mode, history=list(map(int, h)), fitter_options=fkw, package=tag or 'v1'))
                    continue
                diffs = probe.same_canon(want, got)
                if diffs:
                    ctx.violation('history-dependent-fit', 'a fitter returned a different result for a source after fitting other sources first',
                                  dict(mode=mode, history=list(map(int, h)), differs=diffs, fitter_options=fkw, package=tag or 'v1'))
                ctx.event('pair:history')
                ctx.case(('hist', iset, mode, tuple(map(int, h)), ih % 2, bool(fkw), tag, ctx.shard), nontrivial=True)

    if DRAWS[1]:
        ctx.regime('source:placeholder-in-plot-only-slot', DRAWS[1])


def replay(ctx, rec):
    ctx.inconclusive('replay: re-run ./check C11 with VERIF_SEED=%s; the witness holds the literal inputs' % rec.get('seed'))
