"""C03 — data flags mean what the data-format page says.

Metamorphic monitor over paired executions of Fitter.fit on the same fitter, for every
flag vector in {0,1,2,3,4,9}^n, n<=5 (exhaustive), both fitting modes.
"""
import itertools
import math

import numpy as np
from astropy import units as u

from .. import gen, pkg, probe, fitcheck
from .. import oracles as O

SHARDS = {'quick': 8, 'thorough': 16, 'quick_timeout': 900, 'thorough_timeout': 5400}

HOSTILE = [1e30, 1e-30, -999.0, -999.9, 0.0, -5.0, float('nan'), float('inf'), float('-inf'), 1e300, -1e300]
FLAGS = (0, 1, 2, 3, 4, 9)


FLAGKIND = [0]


def by_name(info):
    out = {}
    for i, n in enumerate(info.model_name):
        out[str(n).strip()] = (float(info.av[i]), float(info.sc[i]), float(info.chi2[i]),
                               None if info.model_fluxes is None else np.array(info.model_fluxes[i], float))
    return out


def same_f(a, b):
    return a == b or (a != a and b != b)


class Setup(object):
    """one package in one mode with fitters for the first n bands and for every single-band removal"""

    def __init__(self, ctx, rng, mode):
        self.mode = mode
        self.nb = 5
        self.n_models = 6
        self.dir = ctx.newdir('c03')
        self.names = gen.model_names(rng, self.n_models, 'num')
        self.wav = np.sort(gen.band_wavelengths(rng, self.nb))
        lw, lc = gen.make_law_arrays(rng, n=20, lo=0.1, hi=1000.0)
        self.law = gen.build_law(lw, lc)
        self.k = O.ext_pattern(lw, lc, self.wav)
        self.bn = ['G%d' % i for i in range(self.nb)]
        if mode == '2d':
            self.conv = gen.conv_grid(rng, self.n_models, self.nb)
            gen.write_grid_v1(self.dir, self.names, self.bn, self.wav, self.conv)
            self.theta = np.ones(self.nb)
            self.dr = (1.0, 2.0)
            self.aps = None
        else:
            self.aps = gen.aperture_table(rng, 4)
            self.conv = gen.conv_grid(rng, self.n_models, self.nb, n_ap=4)
            gen.write_grid_v1(self.dir, self.names, self.bn, self.wav, self.conv, apertures=self.aps,
                              aperture_dependent=True, logd_step=0.1)
            self.dr = (1.0, 10 ** 0.45)
            self.theta = np.array([float(gen.loguniform(rng, self.aps[0] * 1.01, self.aps[-1])) / 1000.0
                                   for _ in range(self.nb)])
        self.lo, self.hi = -5.0, 30.0
        self.fitters = {}

    def fitter(self, bands):
        bands = tuple(bands)
        if bands not in self.fitters:
            idx = list(bands)
            self.fitters[bands] = gen.make_fitter([self.bn[i] for i in idx], self.theta[idx], self.dir, self.law,
                                                  (self.lo, self.hi), self.dr)
        return self.fitters[bands]

    def truth(self, bands):
        idx = list(bands)
        f = self.fitter(bands)
        # single-precision storage of the model fluxes is observed on the fitter, not assumed from the package format
        prec = lambda lm: 3e-7 * (1 + float(np.max(np.abs(np.asarray(lm, float))))) if fitcheck.holds_float32(f) else 0.0
        if self.mode == '2d':
            logm = np.log10(self.conv[:, 0, :][:, idx])
            return fitcheck.GridTruth(self.names, logm, self.k[idx], self.lo, self.hi, delta=prec(logm))
        dist = np.asarray(f.models.distances.to(u.kpc).value, float)
        logm = fitcheck.grid_logm(self.conv[:, :, idx], self.aps, self.theta[idx], dist)
        return fitcheck.GridTruth(self.names, logm, self.k[idx], self.lo, self.hi, delta=prec(logm), logd=np.log10(dist))


def draw_photometry(rng, st, flags):
    n = len(flags)
    m0 = int(rng.integers(st.n_models))
    a0 = float(rng.uniform(0, 10))
    s0 = float(rng.uniform(-1, 1)) if st.mode == '2d' else 0.0
    base = np.log10(st.conv[m0, -1, :n]) + a0 * st.k[:n] - 2 * s0
    flux, err = gen.photometry_for(rng, flags, base)
    for j, v in enumerate(flags):            # ignored slots start with ordinary values
        if v in (0, 9):
            flux[j] = 10.0 ** base[j]
            err[j] = 0.1 * flux[j]
    return flux, err


def check_vector(ctx, rng, st, flags):
    flags = np.array(flags, int)
    n = len(flags)
    bands = tuple(range(n))
    mode = st.mode
    try:
        fitter = st.fitter(bands)
    except Exception as exc:
        ctx.raised(exc, 'setup:fitter', 'Fitter() raised: %r' % (exc,), {'mode': mode})
        return
    flux, err = draw_photometry(rng, st, flags)
    fitted = (flags == 1) | (flags == 4)
    nfit = int(fitted.sum())
    _, _, w0 = O.transform(flags, flux, err)
    kk = st.k[:n]
    cond_ = 1.0
    if mode == '2d':
        nontrivial = False
        if nfit >= 2:
            wk = np.sum(w0 * kk) / np.sum(w0)
            cond = np.sum(w0 * (kk - wk) ** 2) / np.sum(w0 * kk ** 2)
            nontrivial = bool(np.isfinite(cond) and cond >= 1e-8)
            cond_ = float(cond) if nontrivial else 1.0
    else:
        nontrivial = nfit >= 1 and bool(np.any(np.abs(kk[fitted]) > 1e-3))
    wit = {'mode': mode, 'flags': flags, 'flux': flux, 'error': err, 'band_wav': st.wav[:n], 'k': st.k[:n]}

    def fit(fl, fx, er, ft=None):
        return (ft or fitter).fit(gen.build_source('src', fl, fx, er))

    try:
        base = fit(flags, flux, err)
    except Exception as exc:
        if nontrivial:
            ctx.raised(exc, 'base:fit-raised', 'Fitter.fit raised: %r' % (exc,), wit)
        else:      # a singular regression (too few fitted points) is outside C01/C02's quantifier: refusing it is not judged
            ctx.event('singular-vector-refused')
        return
    ctx.event('fit:base')
    if int(base.source.n_data) != nfit:
        ctx.violation('n_data-counts-other-flags', 'the number of fitted points counts flags other than 1 and 4',
                      dict(wit, n_data=int(base.source.n_data), expected=nfit))
    bn = by_name(base)
    ctx.case((mode, tuple(flags.tolist()), ctx.shard, ctx.evaluations), nontrivial=bool(nontrivial),
             sample=wit if nontrivial else None)
    ctx.regime('n=%d' % n)

    # the numeric oracle (C01/C02) on the base fit of regular vectors, so that the metamorphic
    # relations below cannot all be satisfied by a consistently wrong treatment
    if nontrivial:
        tr = st.truth(bands)
        if mode == '2d':
            fitcheck.check_fit2d(ctx, tr, flags, flux, err, base, wit, keyp='ref2d')
        else:
            fitcheck.check_fit3d(ctx, tr, flags, flux, err, base, wit, keyp='ref3d')
        ctx.event('reference-oracle')

    # (00) the same source read from a line of a data file (the documented route): the flags must mean the same as for the
    #      source built in memory (repr() of a float reads back exactly, so the fits must be bit-identical)
    try:
        from sedfitter.source import Source
        s_line = Source.from_ascii(gen.source_line('src', flags, flux, err))
        rl_ = by_name(fitter.fit(s_line))
        ctx.event('pair:source-read-from-data-line')
        if not probe.same(np.asarray(s_line.valid), flags):
            ctx.violation('data-line:flags-changed', 'reading the source from a data line changed its flags', dict(wit, read_flags=s_line.valid))
        else:
            for name, (a, s_, c, mf) in bn.items():
                a2, s2, c2, mf2 = rl_[name]
                if not (same_f(a, a2) and same_f(s_, s2) and same_f(c, c2)):
                    ctx.violation('data-line:fit-differs', 'a source read from a data line is not fitted like the same source built in memory',
                                  dict(wit, model=name, in_memory=(a, s_, c), from_line=(a2, s2, c2)))
                    break
    except Exception as exc:
        if nontrivial:
            ctx.raised(exc, 'data-line:raised', 'reading / fitting the source from a data line raised: %r' % (exc,), wit)

    # (00b) the flag vector given in another legal container (the setter takes any 1-d sequence of whole numbers: unsigned bytes as
    #       from a FITS 'B' column, short integers, whole-valued floats, a list, a tuple): the flags must mean the same
    if nontrivial:
        FLAGKIND[0] += 1
        fk = ['u1', 'u2', 'i2', 'f8', 'list', 'u4', 'i1', 'tuple'][FLAGKIND[0] % 8]
        fv = [int(x) for x in flags] if fk == 'list' else (tuple(int(x) for x in flags) if fk == 'tuple' else np.array(flags).astype(fk))
        try:
            s_fk = gen.build_source('src', flags, flux, err)
            s_fk.valid = fv
            rk_ = by_name(fitter.fit(s_fk))
            ctx.event('pair:flags-in-another-container')
            for name, (a, s_, c, mf) in bn.items():
                a2, s2, c2, mf2 = rk_[name]
                if not (same_f(a, a2) and same_f(s_, s2) and same_f(c, c2)):
                    ctx.violation('flags-container:fit-differs', 'the same flags given as %s are not fitted like the same flags given as an int64 array' % fk,
                                  dict(wit, flags_given_as=fk, model=name, int64=(a, s_, c), other=(a2, s2, c2)))
                    break
        except Exception as exc:
            ctx.raised(exc, 'flags-container:raised', 'assigning / fitting the flags given as %s raised: %r' % (fk, exc), dict(wit, flags_given_as=fk))

    # (0) the flags mean the same on a source object that carried other flags before: a live Source already fitted with `flags`
    #     is re-flagged (one fitted point or one limit becomes unused / plot-only) and fitted again; the result must be
    #     bit-identical to that of a fresh Source with the new flags and the same values
    cand = [j for j in range(n) if flags[j] in (1, 4)] if nfit > (2 if mode == '2d' else 1) else []
    cand += [j for j in range(n) if flags[j] in (2, 3)]
    if cand and nontrivial:
        j = int(cand[int(rng.integers(len(cand)))])
        flags2 = flags.copy()
        flags2[j] = int(rng.choice([0, 9]))
        try:
            live = gen.build_source('src', flags, flux, err)
            fitter.fit(live)
            live.valid = flags2.copy()
            rl = by_name(fitter.fit(live))
            rf = by_name(fit(flags2, flux, err))
            # ... and then its values re-assigned (flags untouched)
            fx3, er3 = flux.copy(), err.copy()
            reg = (flags2 == 1)
            fx3[reg] = flux[reg] * rng.uniform(0.5, 2.0, int(reg.sum()))
            er3[reg] = err[reg] * rng.uniform(0.5, 2.0, int(reg.sum()))
            if rng.random() < 0.5:
                fx3 = flux.copy()                 # only the errors are re-assigned
                live.error = er3.copy()
            else:
                live.flux = fx3.copy()
                fitter.fit(live)                  # (used between the two assignments)
                live.error = er3.copy()
            rl3 = by_name(fitter.fit(live))
            rf3 = by_name(fit(flags2, fx3, er3))
            for name in rf3:
                if not all(same_f(x_, y_) for x_, y_ in zip(rf3[name][:3], rl3[name][:3])):
                    ctx.violation('revalued-live-source-differs', 'a source object whose fluxes/errors were re-assigned is not fitted like a fresh source with those values',
                                  dict(wit, new_flags=flags2, new_flux=fx3, new_error=er3, model=name, fresh=rf3[name][:3], live=rl3[name][:3]))
                    break
        except Exception as exc:
            # the vector is regular and so is the re-flagged one: a fresh source with these flags fits, so must the live one
            ctx.raised(exc, 'reflagged:fit-raised', 'fitting a source object whose flags / values were re-assigned raised: %r' % (exc,), dict(wit, new_flags=flags2))
            rl = None
        if rl is not None:
            ctx.event('pair:live-source-reflagged')
            for name, (a, s_, c, mf) in rf.items():
                a2, s2, c2, mf2 = rl[name]
                if not (same_f(a, a2) and same_f(s_, s2) and same_f(c, c2)):
                    ctx.violation('reflagged-live-source-differs', 'a source object whose flags were re-assigned is not fitted like a fresh source with those flags',
                                  dict(wit, new_flags=flags2, model=name, fresh=(a, s_, c), live=(a2, s2, c2)))
                    break

    # (i) ignored slots carry hostile values: bit-identical outputs
    ign = np.where((flags == 0) | (flags == 9))[0]
    if ign.size:
        # (i-0) ... and nothing is left in them by a source fitted before on the same fitter in which those bands *were* fitted:
        #       fit an all-flag-1 source, then this source again: bit-identical to the first time
        fl1 = np.ones(n, int)
        fx1, er1 = draw_photometry(rng, st, fl1)
        try:
            fit(fl1, fx1, er1)
            again = fit(flags, flux, err)
        except Exception as exc:
            ctx.raised(exc, 'ignored:refit-raised', 'fit raised when repeated after a source with every band fitted: %r' % (exc,), wit)
            again = None
        if again is not None:
            ctx.event('pair:ignored-after-fully-fitted-source')
            an = by_name(again)
            for name, (a, s, c, mf) in bn.items():
                a2, s2, c2, mf2 = an[name]
                if not (same_f(a, a2) and same_f(s, s2) and same_f(c, c2) and (mf is None or np.array_equal(mf, mf2, equal_nan=True))):
                    ctx.violation('ignored-slot-influences-fit:after-other-source',
                                  'a slot flagged 0/9 contributes to the fit output once another source was fitted in that band before',
                                  dict(wit, previous_flux=fx1, previous_error=er1, model=name, before=(a, s, c), after=(a2, s2, c2)))
                    break
        fx, er = flux.copy(), err.copy()
        for j in ign:
            fx[j] = HOSTILE[int(rng.integers(len(HOSTILE)))]
            er[j] = HOSTILE[int(rng.integers(len(HOSTILE)))]
        try:
            h = fit(flags, fx, er)
        except Exception as exc:
            ctx.raised(exc, 'ignored:fit-raised', 'fit raised with hostile values in an ignored slot: %r' % (exc,),
                          dict(wit, hostile_flux=fx, hostile_error=er))
            h = None
        if h is not None:
            ctx.event('pair:ignored-hostile')
            hn = by_name(h)
            for name, (a, s, c, mf) in bn.items():
                a2, s2, c2, mf2 = hn[name]
                okmf = True
                if mf is not None:
                    okmf = np.array_equal(mf, mf2, equal_nan=True)
                if not (same_f(a, a2) and same_f(s, s2) and same_f(c, c2) and okmf):
                    which = 'flag9' if np.any(flags[ign] == 9) and not np.any(flags[ign] == 0) else \
                        ('flag0' if not np.any(flags[ign] == 9) else 'flag0+9')
                    # classify: does a flag-9 slot alone do it?
                    ctx.violation('ignored-slot-influences-fit:' + which,
                                  'values in a slot flagged 0/9 changed the fit output',
                                  dict(wit, hostile_flux=fx, hostile_error=er, model=name,
                                       before=(a, s, c), after=(a2, s2, c2)))
                    break
        # ... and equal to the fit with that band removed from the fitter
        if nontrivial and n >= 2:
            j = int(ign[int(rng.integers(ign.size))])
            keep = [b for b in range(n) if b != j]
            try:
                sub = fit(flags[keep], flux[keep], err[keep], st.fitter(tuple(keep)))
            except Exception as exc:
                sub = None
                ctx.raised(exc, 'ignored:sub-fit-raised', 'fit without the ignored band raised: %r' % (exc,), wit)
            if sub is not None:
                ctx.event('pair:band-removed')
                sn = by_name(sub)
                for name, (a, s, c, mf) in bn.items():
                    a2, s2, c2, mf2 = sn[name]
                    pt = 1e-9 / cond_           # parameters: rounding amplified by the conditioning of the regression (as in C01)
                    if not (O.close(a, a2, pt, pt) and O.close(s, s2, pt, pt) and O.close(c, c2, 1e-9, 1e-12 + 1e-10 * float(np.sum(w0)))):
                        ctx.violation('ignored-slot-not-equivalent-to-removal',
                                      'fit with a band flagged 0/9 differs from the fit without that band',
                                      dict(wit, removed=j, model=name, with_band=(a, s, c), without=(a2, s2, c2)))
                        break

    # (ii)/(iii) limits
    lim = np.where((flags == 2) | (flags == 3))[0] if nontrivial else []
    for j in lim:
        f0 = flags.copy()
        f0[j] = 0
        try:
            z = fit(f0, flux, err)
        except Exception as exc:
            ctx.raised(exc, 'limit:fit-raised', 'fit raised: %r' % (exc,), wit)
            continue
        ctx.event('pair:limit-vs-flag0')
        zn = by_name(z)
        c = float(err[j])
        pen = O.penalty(c)
        logl = math.log10(flux[j])
        for name, (a, s, ch, mf) in bn.items():
            a2, s2, ch2, mf2 = zn[name]
            if mode == '2d':
                if not (same_f(a, a2) and same_f(s, s2)):
                    ctx.violation('limit-steers-solution', 'changing a limit to flag 0 changed A_V/scale',
                                  dict(wit, slot=int(j), model=name, with_limit=(a, s), flag0=(a2, s2)))
                    break
                if not nontrivial or not np.isfinite(ch2):
                    continue
                d = mf[j] - logl
                bad = (d < 0) if flags[j] == 2 else (d > 0)
                diff = ch - ch2
                tol = 1e-9 * max(abs(ch), abs(ch2)) + 1e-12
                if abs(d) <= 1e-9:
                    ok = abs(diff) <= tol or abs(diff - pen) <= tol or (pen >= 1e30 and ch >= 1e29)
                elif bad:
                    ok = (ch >= 1e29) if pen >= 1e30 else abs(diff - pen) <= tol + 1e-9 * pen
                    ctx.regime('limit-violated:c=1' if c >= 1 else ('limit-violated:c=0' if c == 0 else 'limit-violated:0<c<1'))
                else:
                    ok = abs(diff) <= tol
                    ctx.regime('limit-satisfied')
                if not ok:
                    ctx.violation('limit-penalty-wrong',
                                  'chi^2(with limit) - chi^2(flag 0) is not {0, -2 ln(1-confidence)} according to the side of the prediction',
                                  dict(wit, slot=int(j), model=name, confidence=c, predicted_minus_limit=float(d),
                                       chi2_with=ch, chi2_flag0=ch2, expected_penalty=pen if bad else 0.0))
                    break
            else:
                # 3-D: the penalty can move the best distance; numeric reference decided above (ref3d).
                # confidence 0 must still be equivalent to flag 0
                if c == 0.0 and not (same_f(a, a2) and same_f(s, s2) and O.close(ch, ch2, 1e-12, 1e-300)):
                    ctx.violation('limit-c0-not-flag0', 'confidence 0 is not equivalent to flag 0',
                                  dict(wit, slot=int(j), model=name, with_limit=(a, s, ch), flag0=(a2, s2, ch2)))
                    break
                if nontrivial and np.isfinite(ch) and np.isfinite(ch2) and ch > ch2 + (1e-9 * abs(ch2) + 1e-12):
                    ctx.regime('limit-penalised:3d')          # (the amount is decided by the numeric reference ref3d)
                if nontrivial and np.isfinite(ch) and np.isfinite(ch2) and ch < ch2 - (1e-9 * abs(ch2) + 1e-12):
                    ctx.violation('limit-lowers-chi2', 'adding a limit lowered a model chi^2',
                                  dict(wit, slot=int(j), model=name, chi2_with=ch, chi2_flag0=ch2))
                    break
        # explicit confidence 0: identical to flag 0 (both modes)
        e0 = err.copy()
        e0[j] = 0.0
        try:
            q = fit(flags, flux, e0)
        except Exception as exc:
            ctx.raised(exc, 'limit:fit-raised', 'fit raised: %r' % (exc,), wit)
            continue
        ctx.event('pair:confidence0-vs-flag0')
        # compare with flag-0 fit of the *same* other-limit confidences
        qn = by_name(q)
        for name, (a2, s2, ch2, _) in zn.items():
            a, s, ch, _ = qn[name]
            if not (same_f(a, a2) and same_f(s, s2) and (same_f(ch, ch2) or O.close(ch, ch2, 1e-12, 1e-300))):
                ctx.violation('limit-c0-not-flag0', 'confidence 0 is not equivalent to flag 0',
                              dict(wit, slot=int(j), model=name, conf0=(a, s, ch), flag0=(a2, s2, ch2)))
                break

    # (iv) flag 1 rewritten as flag 4
    ones = np.where(flags == 1)[0]
    if ones.size and nontrivial:
        f4, fx, er = flags.copy(), flux.copy(), err.copy()
        for j in ones:
            f4[j] = 4
            fx[j] = math.log10(flux[j]) - 0.5 * (err[j] / flux[j]) ** 2 / math.log(10.0)
            er[j] = abs(err[j] / flux[j]) / math.log(10.0)
        try:
            g = fit(f4, fx, er)
        except Exception as exc:
            g = None
            ctx.raised(exc, 'flag4:fit-raised', 'fit raised: %r' % (exc,), wit)
        if g is not None:
            ctx.event('pair:flag1-as-flag4')
            # "identical fits": the fit of the rewritten source must be the optimum for the ORIGINAL flag-1 data
            # (same reference oracle and tolerances as the base fit), and chi^2 must agree per model
            tr = st.truth(bands)
            if mode == '2d':
                fitcheck.check_fit2d(ctx, tr, flags, flux, err, g, dict(wit, rewritten_flux=fx, rewritten_error=er), keyp='flag4-not-equivalent')
            else:
                fitcheck.check_fit3d(ctx, tr, flags, flux, err, g, dict(wit, rewritten_flux=fx, rewritten_error=er), keyp='flag4-not-equivalent')


def vectors(ctx):
    rng = ctx.rng
    out = []
    i = 0
    nmax_full = 4 if ctx.quick else 5
    for n in range(1, nmax_full + 1):
        for v in itertools.product(FLAGS, repeat=n):
            if ctx.mine(i):
                out.append(v)
            i += 1
    if ctx.quick:
        per = 1600 // ctx.nshards
        for _ in range(per):
            out.append(tuple(int(x) for x in rng.choice(FLAGS, 5)))
    return out


def run(ctx):
    rng = ctx.rng
    ctx.rule = ('every flag vector in {0,1,2,3,4,9}^n for n<=4 (quick; n<=5 thorough, exhaustive, partitioned over shards) plus '
                'sampled n=5, x fresh random photometry x {2-D, 3-D} packages; a case = one base fit with its paired variants '
                '(hostile ignored values, band removal, limit->flag 0, confidence 0, flag 1->4); non-trivial = regular regression')
    ctx.exhaustive = True
    ctx.extra['exhaustive_subspace'] = 'flag vectors of length 1..%d' % (4 if ctx.quick else 5)
    ctx.assume('hostile values for ignored slots: 1e+-30, -999, 0, negatives, NaN, +-inf, 1e+-300',
               'fitters are built with the default remove_resolved=False: with remove_resolved=True every band with a non-zero flag (also 2, 3, 9) takes part in excluding resolved models, a configuration no statement covers',
               'predicted flux within 1e-9 dex of a limit: penalty may or may not apply',
               'limits carry positive finite fluxes (quantifier of C01)',
               '3-D mode: penalties are decided by the numeric reference of C02 (the penalty can move the best distance)')
    ctx.require_events('fit:base', 'pair:ignored-hostile', 'pair:band-removed', 'pair:limit-vs-flag0',
                       'pair:confidence0-vs-flag0', 'pair:flag1-as-flag4', 'reference-oracle', 'pair:live-source-reflagged', 'pair:source-read-from-data-line',
                       'pair:ignored-after-fully-fitted-source', 'pair:flags-in-another-container')
    ctx.require_regimes('limit-violated:c=1', 'limit-violated:0<c<1', 'limit-satisfied', 'limit-penalised:3d', 'n=1', 'n=4')
    sets = [Setup(ctx, rng, '2d'), Setup(ctx, rng, '3d')]
    vs = vectors(ctx)
    reps = 1 if ctx.quick else 4
    for v in vs:
        for st in sets:
            for _ in range(reps):
                check_vector(ctx, rng, st, v)
                if len(ctx.violations) >= ctx.max_violations:
                    return


def replay(ctx, rec):
    ctx.inconclusive('replay: re-run ./check C03 with VERIF_SEED=%s; the witness holds the literal inputs' % rec.get('seed'))
