"""C10 — fit() writes one faithful record per eligible source and reads back unchanged.

Trace checking: probes at the boundaries of one fit() run only *record* events
(records handed to FitInfoFile.write, plus the file-effect trace); an offline
checker then compares the trace and the file with an independent run of the object
interface.  Post-processing functions are then driven with a file / one object / a list,
with canonical snapshots of the objects before and after.
"""
import io
import itertools
import os

import numpy as np
from astropy import units as u

from .. import gen, pkg, probe, effects
from .. import oracles as O

SHARDS = {'quick': 4, 'thorough': 16, 'quick_timeout': 1200, 'thorough_timeout': 7200}

TRACE = []


def install(ctx):
    from sedfitter.source import Source
    from sedfitter.fit import Fitter
    from sedfitter.fit_info import FitInfo, FitInfoFile

    def write_pre(self, info):
        TRACE.append(('write', info.source.name, probe.canon_info(info)))
        return True

    probe.attach(FitInfoFile, 'write', require=write_pre)


def meta_canon(meta):
    law = meta.extinction_law
    return {'model_dir': meta.model_dir,
            'filters': [(f.get('name'), float(f['aperture_arcsec']), float(f['wav'].to(u.micron).value)) for f in meta.filters],
            'law_wav': probe.arr(law.wav.to(u.micron)), 'law_chi': probe.arr(law.chi)}


def figures_canon(figs):
    out = {}
    for name, f in figs.items():
        segs = None
        if 'lines' in f:
            segs = [np.array(s, float) for s in f['lines'].get_segments()]
        out[name] = segs
    return out


def same_figs(a, b):
    if set(a) != set(b):
        return False
    for k in a:
        if (a[k] is None) != (b[k] is None):
            return False
        if a[k] is None:
            continue
        if len(a[k]) != len(b[k]) or any(not probe.same(x, y) for x, y in zip(a[k], b[k])):
            return False
    return True


class Post(object):
    """the post-processing functions, each returning a comparable output"""

    def __init__(self, ctx, workdir):
        self.ctx, self.d, self.n = ctx, workdir, 0

    def path(self, stem):
        self.n += 1
        return os.path.join(self.d, '%s_%04d' % (stem, self.n))

    def run(self, fname, inp, sel):
        from sedfitter import write_parameters, write_parameter_ranges, extract_parameters, filter_output, plot
        if fname == 'write_parameters':
            p = self.path('wp')
            write_parameters(inp, p, select_format=sel)
            return open(p, 'rb').read()
        if fname == 'write_parameter_ranges':
            p = self.path('wr')
            write_parameter_ranges(inp, p, select_format=sel)
            return open(p, 'rb').read()
        if fname == 'extract_parameters':
            p = self.path('ex')
            os.mkdir(p)
            extract_parameters(input=inp, output_prefix=p + '/', output_suffix='.txt', select_format=sel)
            return {f: open(os.path.join(p, f), 'rb').read() for f in sorted(os.listdir(p))}
        if fname == 'filter_output':
            g, b = self.path('good'), self.path('bad')
            self.nfo = getattr(self, 'nfo', 0) + 1
            if self.nfo % 2 == 0:
                # every other call writes to the same pair of names as an earlier call (made with another threshold or another form
                # of input): what that call left behind must not show up in this one's outputs
                g, b = os.path.join(self.d, 'good_same_name'), os.path.join(self.d, 'bad_same_name')
                self.ctx.event('filter_output:output-names-re-used')
            thr = sel[1] if sel[0] in 'CD' else 5.0
            filter_output(inp, output_good=g, output_bad=b, chi=float(thr) + 0.123)
            from ..props.c19 import read_all
            out = []
            for pth in (g, b):
                out.append([] if (not os.path.exists(pth) or os.path.getsize(pth) == 0) else read_all(pth))      # no file = no records
            try:
                if isinstance(inp, str):
                    expect = [r_['source']['name'] for r_ in read_all(inp)]
                elif hasattr(inp, 'source'):
                    expect = [inp.source.name]
                else:
                    expect = [x_.source.name for x_ in inp]
            except Exception:
                expect = None
            if expect is not None:
                names_out = sorted(r_['source']['name'] for x_ in out for r_ in x_)
                if names_out != sorted(expect):
                    self.ctx.violation('post:filter_output:outputs-not-a-partition-of-the-input',
                                       'the two outputs of filter_output together do not hold every input source exactly once',
                                       {'input_sources': sorted(expect), 'in_outputs': names_out, 'threshold': float(thr) + 0.123,
                                        'names_re_used': self.nfo % 2 == 0})
            return out
        if fname in ('plot_params_1d', 'plot_params_2d'):
            import matplotlib.pyplot as plt
            from sedfitter import plot_params_1d, plot_params_2d
            p = self.path('pp')
            if fname == 'plot_params_1d':
                plot_params_1d(inp, 'par1', output_dir=p, select_format=sel, format='png', log_x=False)
            else:
                plot_params_2d(inp, 'par1', 'par2', output_dir=p, select_format=sel, format='png', log_x=False, log_y=False)
            plt.close('all')
            return sorted(os.listdir(p))          # one figure per source (the rendering itself is not compared)
        if fname in ('plot', 'plot:convolved', 'plot:individual'):
            import matplotlib.pyplot as plt
            kwp = {'plot': {}, 'plot:convolved': dict(show_convolved=True), 'plot:individual': dict(plot_mode='I', sed_type='largest')}[fname]
            figs = plot(inp, output_dir=None, select_format=sel, **kwp)
            plt.close('all')
            return figures_canon(figs)
        if fname == 'plot:files':
            import matplotlib.pyplot as plt
            p = self.path('pl')
            plot(inp, output_dir=p, select_format=sel, show_convolved=True, format='png', dpi=20)
            plt.close('all')
            return sorted(os.listdir(p))          # one figure per source (the rendering itself is not compared)
        raise KeyError(fname)


def same_output(fname, a, b):
    if fname in ('plot', 'plot:convolved', 'plot:individual'):
        return same_figs(a, b)
    if fname == 'filter_output':
        if [len(x) for x in a] != [len(x) for x in b]:
            return False
        return all(not probe.same_canon(r1, r2) for x, y in zip(a, b) for r1, r2 in zip(x, y))
    return a == b


def run(ctx):
    rng = ctx.rng
    install(ctx)
    from sedfitter import fit
    from sedfitter.fit import Fitter
    from sedfitter.fit_info import FitInfoFile
    from sedfitter.source import Source
    ctx.rule = ('data files with 1..12 lines mixing eligible and ineligible sources (>=1 eligible), n_data_min 0..6, selectors of every form, '
                'output_convolved yes/no, 2-D and 3-D packages in both formats; then write_parameters, write_parameter_ranges, extract_parameters, '
                'filter_output, plot(output_dir=None) driven with a file / one object / a list, and sequences of <=3 calls with different selectors on the '
                'same in-memory results vs on the file. a case = one fit() run or one post-processing comparison; non-trivial = >=2 records or >=2 calls')
    ctx.assume('records are compared bit-exact NaN-aware with an independent Fitter(...).fit on the same line',
               'a run that writes no record is not generated (zero-byte file: nothing claimed)', 'filter_output is not driven on files holding a record with zero selected fits (no best chi^2 to classify)', 'plot_params_1d/2d (PNG renderers) are driven in the thorough tier only: files produced and unchanged inputs are compared, not the rendering')
    ctx.require_events('trace:fit-run', 'record:compared', 'meta:compared', 'forms:file-vs-list', 'forms:file-vs-object', 'sequence:compared', 'unchanged:checked', 'sequence:written-then-read', 'filter_output:output-names-re-used')
    ctx.require_regimes('names:with-hash-percent-quote', 'data-file:last-line-without-newline', 'model_dir:not-in-canonical-spelling', 'list-from-two-reads', 'post:plot-with-stored-predictions')
    ctx.require_regimes('skipped-sources', 'output_convolved', 'no-output_convolved', 'mode:2d', 'mode:3d', 'style:v1', 'style:v2',
                        'first-line-ineligible', 'short-line-ends-input', 'duplicate-source-name')
    n_runs = 5 if ctx.quick else 16
    funcs = ['write_parameters', 'write_parameter_ranges', 'extract_parameters', 'filter_output', 'plot']
    if not ctx.quick:
        funcs += ['plot_params_1d', 'plot_params_2d']       # PNG renderers (~1 s each): thorough tier only
    for irun in range(n_runs):
        d = ctx.newdir('c10')
        mode = '2d' if irun % 2 == 0 else '3d'
        style = 'v1' if (irun // 2) % 2 == 0 else 'v2'
        ctx.regime('mode:' + mode)
        ctx.regime('style:' + style)
        n_models = int(rng.integers(3, 9))
        nb = int(rng.integers(3, 7))
        names = gen.model_names(rng, n_models)
        bn = ['P%d' % i for i in range(nb)]
        # cube packages: fit at tabulated wavelengths so that plot() can draw the SEDs
        n_ap = 3 if mode == '3d' else 1
        from .. import convcheck
        truth = convcheck.make_truth(rng, n_models, n_ap, 12, names=names, wav_range=(0.3, 500.0),
                                     params={'par1': np.arange(n_models) + 0.5, 'par2': 100.0 - np.arange(n_models)})
        bi = np.sort(rng.choice(12, nb, replace=False))
        wav = truth.wav[bi]
        conv = truth.flux[:, :, bi]
        md = os.path.join(d, 'models')
        os.mkdir(md)
        if style == 'v1':
            order = list(rng.permutation(n_models))
            pkg.build_v1(md, truth, table_order=order, aperture_dependent=(mode == '3d'), logd_step=0.1, fmt='D')
            for f in range(nb):
                pkg.write_convolved_file(os.path.join(md, 'convolved', bn[f] + '.fits'), [names[i] for i in order], truth.apertures,
                                         conv[order, :, f], conv[order, :, f] * 0.05, wav[f])
            filt = bn
        else:
            pkg.build_v2(md, truth, aperture_dependent=(mode == '3d'), logd_step=0.1, descending_wav=bool(rng.random() < 0.5))
            filt = [w * u.micron for w in wav]
        lw, lc = gen.make_law_arrays(rng, n=12, lo=0.05, hi=3000.0)
        law_unit = [None, u.nm, u.AA, u.cm][int(rng.integers(4))]      # the law travels through the pickle with its own unit
        law = gen.build_law(lw, lc, wav_unit=law_unit)
        k = O.ext_pattern(lw, lc, wav)
        if mode == '3d':
            theta = np.array([float(gen.loguniform(rng, truth.apertures[0] * 1.05, truth.apertures[-1])) for _ in range(nb)]) / 1000.0
            dr = [1.0, 2.0] * u.kpc
        else:
            theta = np.ones(nb)
            dr = [1.0, 2.0] * u.kpc
        # data file
        n_lines = int(rng.integers(1, 13))
        n_data_min = int(rng.integers(0, min(7, nb + 1)))
        slot10 = (irun + ctx.shard) % 5          # the classes every run must contain are laid out by (run, shard), the rest is drawn
        if slot10 in (1, 2, 3):
            n_lines = max(n_lines, 3)
        if slot10 == 3:
            n_data_min = max(n_data_min, 1)
        lines, ndat = [], []

        def gen_line(i, nfit, name):
            valid = np.array([1] * nfit + list(rng.choice([0, 2, 3, 9], nb - nfit)))
            valid[:nfit] = rng.choice([1, 4], nfit)
            rng.shuffle(valid)
            m0 = int(rng.integers(n_models))
            pred = np.log10(conv[m0, -1, :]) + float(rng.uniform(0, 5)) * k
            flux, err = gen.photometry_for(rng, valid, pred)
            nine = (valid == 9) | (valid == 0)
            flux[nine], err[nine] = 10.0 ** pred[nine], 0.1 * 10.0 ** pred[nine]
            return gen.source_line(name, valid, flux, err, rng.uniform(0, 360), rng.uniform(-90, 90)), int(np.sum((valid == 1) | (valid == 4)))

        snames = ['s%02d' % i for i in range(n_lines)]
        if irun % 3 == 1:
            # names are free text without blanks: catalogue designations with '#', '%', quotes, a leading '#'
            for i_, form_ in zip(range(n_lines), ['IRS#%d', '#%d_in_list', "s%d'b", 'x%d%%y', 'J%d+01.5', '[KH]%d']):
                snames[i_] = form_ % i_
            ctx.regime('names:with-hash-percent-quote')
        if n_lines >= 3 and (slot10 == 2 or rng.random() < 0.3):
            snames[int(rng.integers(1, n_lines))] = snames[0]          # two lines may carry the same source name
            ctx.regime('duplicate-source-name')
        for i in range(n_lines):
            l_, nd_ = gen_line(i, int(rng.integers(max(0, min(n_data_min, nb) - 2), nb + 1)), snames[i])
            lines.append(l_)
            ndat.append(nd_)
        if not any(nd_ >= n_data_min for nd_ in ndat):                 # at least one eligible line, anywhere in the file
            j_ = int(rng.integers(n_lines))
            lines[j_], ndat[j_] = gen_line(j_, min(nb, max(n_data_min, 2)), snames[j_])
        if slot10 == 3 and n_lines >= 2 and n_data_min >= 1 and ndat[0] >= n_data_min:
            # the first line is not eligible (a later one is)
            lines[0], ndat[0] = gen_line(0, max(0, n_data_min - 1), snames[0])
            if not any(nd_ >= n_data_min for nd_ in ndat[1:]):
                lines[1], ndat[1] = gen_line(1, min(nb, max(n_data_min, 2)), snames[1])
        file_lines = list(lines)
        stop = n_lines
        if n_lines >= 2 and (slot10 == 1 or rng.random() < 0.25):
            # a line with fewer than three columns ends the input: everything after it is not read
            cand = [p_ for p_ in range(1, n_lines) if any(ndat[q_] >= n_data_min for q_ in range(p_))]
            if cand:
                stop = int(cand[int(rng.integers(len(cand)))])
                file_lines.insert(stop, str(rng.choice(['', '   ', 'orphan', 'orphan 1.0'])))
                ctx.regime('short-line-ends-input')
        eligible = [i for i in range(stop) if ndat[i] >= n_data_min]
        if ndat[0] < n_data_min:
            ctx.regime('first-line-ineligible')
        if not eligible:
            ctx.rmdir(d)
            continue
        if len(eligible) < n_lines:
            ctx.regime('skipped-sources')
        data = os.path.join(d, 'data.txt')
        # the last line of a data file may or may not end with a newline (editors and scripts differ), or be followed
        # by an empty line
        ending = ['\n', '', '\n', '\n\n'][irun % 4]
        open(data, 'w').write('\n'.join(file_lines) + ending)
        if ending == '':
            ctx.regime('data-file:last-line-without-newline')
        out = os.path.join(d, 'fits.out')
        sel = [('A', 0), ('N', int(rng.integers(1, n_models + 1))), ('C', float(10 ** rng.uniform(0, 4)) + 0.0137), ('D', float(10 ** rng.uniform(0, 3)) + 0.0137),
               ('E', float(10 ** rng.uniform(0, 3)) + 0.0137), ('F', float(10 ** rng.uniform(-1, 3)) + 0.0137)][int(rng.integers(6))]
        oc = bool(rng.random() < 0.5) or style == 'v2' and False
        ctx.regime('output_convolved' if oc else 'no-output_convolved')
        aunit10 = [u.arcsec, u.arcmin, u.deg][irun % 3]          # the apertures may be given in any angle unit
        # the model directory as the user spells it: plain, with a trailing slash, through '.', with a doubled separator - it must be
        # read back as it was given
        md_given = [md, md + '/', os.path.join(os.path.dirname(md), '.', os.path.basename(md)), os.path.dirname(md) + '//' + os.path.basename(md)][irun % 4]
        if md_given != md:
            ctx.regime('model_dir:not-in-canonical-spelling')
        kw = dict(filter_names=filt, apertures=(theta * u.arcsec).to(aunit10), model_dir=md_given, extinction_law=law, av_range=(0.0, 25.0), distance_range=dr)
        wit0 = dict(mode=mode, style=style, n_lines=n_lines, n_data=ndat, n_data_min=n_data_min, selector=sel, output_convolved=oc)
        del TRACE[:]
        try:
            with effects.trace() as tr:
                fit(data, output=out, n_data_min=n_data_min, output_format=sel, output_convolved=oc, **kw)
        except Exception as exc:
            ctx.raised(exc, 'fit-raised', 'fit() raised: %r' % (exc,), wit0)
            ctx.rmdir(d)
            continue
        trace = list(TRACE)
        ctx.event('trace:fit-run')
        # ---- offline trace checker ---------------------------------------------------
        written = [e for e in trace if e[0] == 'write']
        want_names = [snames[i] for i in eligible]
        if not written:
            ctx.event('trace:no-write-events(observed nothing at FitInfoFile.write; the file content decides)')
        elif [e[1] for e in written] != want_names:
            ctx.violation('trace:records-written', 'records written are not exactly the eligible lines, in input order, once each',
                          dict(wit0, written=[e[1] for e in written], expected=want_names))
        wrote = sorted(set(os.path.relpath(p, d) for p in tr.produced(under=d)))
        if 'fits.out' not in wrote:
            ctx.violation('trace:files', 'fit() did not produce its output file', dict(wit0, written=wrote))
        # independent fitter, object interface
        try:
            fitter = Fitter(**dict(kw, filter_names=filt))
        except Exception as exc:
            ctx.raised(exc, 'fitter-raised', 'Fitter() raised: %r' % (exc,), wit0)
            ctx.rmdir(d)
            continue
        def through_objects(ft_):
            out_ = []
            for i in eligible:
                s = Source.from_ascii(lines[i])
                info = ft_.fit(s)
                if not oc:
                    info.model_fluxes = None
                info.keep(sel)
                out_.append(info)
            return out_
        expect = through_objects(fitter)
        # "what the object interface returns": with either setting of the memory-map switch (which one fit() uses is its choice)
        try:
            expect_alt = through_objects(Fitter(**dict(kw, filter_names=filt, use_memmap=False)))
        except Exception:
            expect_alt = expect
        try:
            fin = FitInfoFile(out, 'r')
            recs = list(fin)
            meta = fin.meta
            fin.close()
        except Exception as exc:
            ctx.raised(exc, 'read-raised', 'reading the fit file raised: %r' % (exc,), wit0)
            ctx.rmdir(d)
            continue
        if len(recs) != len(expect):
            ctx.violation('file:record-count', 'file does not contain one record per eligible source', dict(wit0, read=len(recs), expected=len(expect)))
        for ir_, (r, e) in enumerate(zip(recs, expect)):
            ctx.event('record:compared')
            d1 = probe.same_canon(probe.canon_info(e), probe.canon_info(r))
            if d1 and ir_ < len(expect_alt) and not probe.same_canon(probe.canon_info(expect_alt[ir_]), probe.canon_info(r)):
                d1 = []
                ctx.event('record:equals-object-interface-without-memmap')
            d2 = probe.same_canon(written[ir_][2], probe.canon_info(r)) if ir_ < len(written) else []
            if d1 or d2:
                ctx.violation('file:record-differs', 'a record read back differs from what the object interface returns / from what was written: %s %s' % (d1, d2),
                              dict(wit0, source=e.source.name))
            if (r.model_fluxes is not None) != oc:
                ctx.violation('file:predicted-fluxes-presence', 'predicted fluxes present iff requested is violated', dict(wit0, source=e.source.name))
        mc = meta_canon(meta)
        want_meta = {'model_dir': md_given, 'filters': [(None if style == 'v2' else bn[i], float(theta[i]), float(wav[i])) for i in range(nb)],
                     'law_wav': np.asarray(law.wav.to(u.micron).value, float), 'law_chi': np.asarray(lc, float)}
        ctx.event('meta:compared')
        try:
            k_back = np.asarray(meta.extinction_law.get_av(wav * u.micron), float)
            if not O.close(k_back, np.asarray(law.get_av(wav * u.micron), float), 1e-12):
                ctx.violation('file:law-differs', 'the extinction law read back from the file does not give the pattern of the law that was passed in',
                              dict(wit0, law_unit=str(law.wav.unit), got=k_back))
        except Exception as exc:
            ctx.raised(exc, 'file:law-differs', 'the extinction law read back cannot be evaluated: %r' % (exc,), wit0)
        badm = [k_ for k_ in want_meta if not (probe.same(mc[k_], want_meta[k_]) if isinstance(want_meta[k_], np.ndarray) else
                                               (mc[k_] == want_meta[k_] if k_ != 'filters' else
                                                all(a[0] == b[0] and abs(a[1] - b[1]) <= 1e-12 * abs(b[1]) and abs(a[2] - b[2]) <= 1e-9 * b[2] for a, b in zip(mc[k_], want_meta[k_])) and len(mc[k_]) == len(want_meta[k_])))]
        if badm:
            ctx.violation('file:meta-differs', 'shared metadata read back differs: %s' % badm, dict(wit0, got=mc['filters'], expected=want_meta['filters']))
        def meta_same(a, b):
            return all((probe.same(a[q], b[q]) if isinstance(b[q], np.ndarray) else a[q] == b[q]) for q in b)
        for r in recs:
            if not meta_same(meta_canon(r.meta), mc):
                ctx.violation('file:meta-not-attached', 'a record does not carry the shared metadata', wit0)
        ctx.case(('fit', irun, ctx.shard), nontrivial=len(recs) >= 2, sample=dict(wit0, written=[e[1] for e in written]))

        # ---- sequences of records written then read, re-using objects that change in between --------
        seqp = os.path.join(d, 'seq.out')
        try:
            fo = FitInfoFile(seqp, 'w')
            want = []
            so = Source.from_ascii(lines[eligible[0]])
            inf = fitter.fit(so)
            fo.write(inf)
            want.append(probe.canon_info(inf))
            inf.keep(('N', 2))                       # the same result object, selected further, written again
            fo.write(inf)
            want.append(probe.canon_info(inf))
            so.name = so.name + '_edited'            # the same Source object, edited and re-fitted
            so.flux = np.asarray(so.flux) * 1.7
            inf2 = fitter.fit(so)
            fo.write(inf2)
            want.append(probe.canon_info(inf2))
            for i_ in eligible[1:3]:                 # followed by ordinary records
                inf3 = fitter.fit(Source.from_ascii(lines[i_]))
                fo.write(inf3)
                want.append(probe.canon_info(inf3))
            # ... and a result whose model names were edited by hand to carry blanks (records are returned as written, character by character)
            inf4 = fitter.fit(Source.from_ascii(lines[eligible[0]]))
            padded = np.array([('  ' if j_ % 2 else '') + str(x_).strip() + '   ' for j_, x_ in enumerate(inf4.model_name)])
            inf4.model_name = padded.astype(inf4.model_name.dtype.kind + str(max(len(x_) for x_ in padded)))
            names_written = [x_.decode() if isinstance(x_, bytes) else str(x_) for x_ in inf4.model_name.tolist()]
            fo.write(inf4)
            want.append(probe.canon_info(inf4))
            fo.close()
            fin2 = FitInfoFile(seqp, 'r')
            back_objs = list(fin2)
            back = [probe.canon_info(x) for x in back_objs]
            fin2.close()
            names_read = [x_.decode() if isinstance(x_, bytes) else str(x_) for x_ in np.asarray(back_objs[-1].model_name).tolist()] if back_objs else []
            if len(back) == len(want) and names_read != names_written:
                ctx.violation('sequence:model-names-altered', 'model names read back differ, character by character, from the names of the record as written',
                              dict(wit0, written=names_written[:4], read=names_read[:4]))
            ctx.event('sequence:written-then-read')
            if len(back) != len(want):
                ctx.violation('sequence:record-count', 'a sequence of records written then read returns a different number of records',
                              dict(wit0, written=len(want), read=len(back)))
            else:
                for iw, (a_, b_) in enumerate(zip(want, back)):
                    dd_ = probe.same_canon(a_, b_)
                    if dd_:
                        ctx.violation('sequence:record-differs', 'a record read back differs from the record as it was when written (objects re-used between writes): %s' % dd_,
                                      dict(wit0, record=iw, written_name=a_['source']['name'], read_name=b_['source']['name'],
                                           written_n=len(a_['chi2']), read_n=len(b_['chi2'])))
                        break
        except Exception as exc:
            ctx.raised(exc, 'sequence:raised', 'writing/reading a sequence of records raised: %r' % (exc,), wit0)
        # ---- post-processing: three forms ----------------------------------------------
        post = Post(ctx, d)
        sels = [('A', 0), ('N', 1), ('N', 2), ('N', 3), ('F', 1e6), ('C', 1e-9), ('D', 3.7), ('E', 2.3)]
        single_path = os.path.join(d, 'single.out')
        fo = FitInfoFile(single_path, 'w')
        fo.write(recs[0])
        fo.close()
        has_empty = any(len(r.chi2) == 0 for r in recs)
        if has_empty:
            ctx.regime('empty-record')
        run_funcs = [f for f in funcs if not (f == 'filter_output' and has_empty)]   # no best chi^2 to classify: outside C18/C10
        run_funcs = run_funcs + ['plot:individual']
        if oc:        # options that use the predicted fluxes stored with the fits
            run_funcs = run_funcs + ['plot:convolved'] + ([] if ctx.quick else ['plot:files'])
            ctx.regime('post:plot-with-stored-predictions')
        seq_funcs = [f for f in run_funcs if not f.startswith('plot_params') and f != 'plot:files']           # (renderers only in the three-forms block: ~1 s per call)
        for fname in run_funcs:
            psel = sels[int(rng.integers(len(sels)))]
            # fresh in-memory results for each comparison
            def fresh():
                f_ = FitInfoFile(out, 'r')
                r_ = list(f_)
                f_.close()
                return r_
            try:
                ref = post.run(fname, out, psel)
            except Exception as exc:
                ctx.raised(exc, 'post:%s:file-input-raised:%s' % (fname, type(exc).__name__), '%s raised on a file input: %r' % (fname, exc), dict(wit0, post_selector=psel))
                continue
            lst = fresh()
            if len(lst) >= 2 and rng.random() < 0.5:
                other = fresh()                 # records from two separate reads of the same file, combined by the user
                lst = lst[:1] + other[1:]
                ctx.regime('list-from-two-reads')
            before = [probe.canon_info(x) for x in lst]
            meta_before = [meta_canon(x.meta) for x in lst]
            try:
                got = post.run(fname, lst, psel)
            except Exception as exc:
                ctx.raised(exc, 'post:%s:list-input-raised:%s' % (fname, type(exc).__name__), '%s raised on a list of results: %r' % (fname, exc), dict(wit0, post_selector=psel))
                got = None
            if got is not None:
                ctx.event('forms:file-vs-list')
                if not same_output(fname, ref, got):
                    ctx.violation('post:%s:list-differs-from-file' % fname, '%s gives different output for a list of results than for the file' % fname, dict(wit0, post_selector=psel))
                ctx.event('unchanged:checked')
                meta_after = [meta_canon(x.meta) for x in lst]
                if any(not meta_same(a_, b_) for a_, b_ in zip(meta_before, meta_after)):
                    ctx.violation('post:%s:modifies-metadata' % fname, '%s modified the shared metadata (model directory, filters, law) of the results it was given' % fname,
                                  dict(wit0, post_selector=psel, before=meta_before[0]['filters'], after=meta_after[0]['filters']))
                after = [probe.canon_info(x) for x in lst]
                if any(probe.same_canon(a, b) for a, b in zip(before, after)):
                    ctx.violation('post:%s:modifies-results' % fname, '%s modified the result objects it was given' % fname,
                                  dict(wit0, post_selector=psel, n_before=[len(a['chi2']) for a in before], n_after=[len(a['chi2']) for a in after]))
            try:
                ref1 = post.run(fname, single_path, psel)
                one = fresh()[0]
                b1 = probe.canon_info(one)
                got1 = post.run(fname, one, psel)
                ctx.event('forms:file-vs-object')
                if not same_output(fname, ref1, got1):
                    ctx.violation('post:%s:object-differs-from-file' % fname, '%s gives different output for one result object than for the file' % fname, dict(wit0, post_selector=psel))
                if probe.same_canon(b1, probe.canon_info(one)):
                    ctx.violation('post:%s:modifies-results' % fname, '%s modified the result object it was given' % fname, dict(wit0, post_selector=psel))
            except Exception as exc:
                ctx.raised(exc, 'post:%s:object-input-raised:%s' % (fname, type(exc).__name__), '%s raised on a single result object: %r' % (fname, exc), dict(wit0, post_selector=psel))
            ctx.case(('forms', irun, fname, ctx.shard), nontrivial=True)

        # ---- sequences of <=3 calls on the same in-memory results vs on the file ---------
        f_ = FitInfoFile(out, 'r')
        shared = list(f_)
        f_.close()
        for iseq in range(4 if ctx.quick else 12):
            L = int(rng.integers(2, 4))
            seq = [(seq_funcs[int(rng.integers(len(seq_funcs)))], sels[int(rng.integers(len(sels)))]) for _ in range(L)]
            # make sure a tight selector is followed by a looser one somewhere
            if iseq % 2 == 0:
                seq[0] = (seq[0][0], ('N', 1))
                seq[1] = (seq[1][0], ('A', 0))
            okseq = True
            for step, (fname, psel) in enumerate(seq):
                try:
                    a = post.run(fname, out, psel)
                    b = post.run(fname, shared, psel)
                except Exception as exc:
                    ctx.raised(exc, 'sequence:raised:%s' % fname, 'a post-processing call in a sequence raised: %r' % (exc,), dict(wit0, sequence=seq, step=step))
                    okseq = False
                    break
                if not same_output(fname, a, b):
                    ctx.violation('sequence:in-memory-differs-from-file', 'a sequence of post-processing calls on the same in-memory results gives different outputs than on the file',
                                  dict(wit0, sequence=seq, step=step))
                    okseq = False
                    break
            ctx.event('sequence:compared')
            ctx.case(('seq', irun, iseq, ctx.shard), nontrivial=True)
            if not okseq:
                f_ = FitInfoFile(out, 'r')
                shared = list(f_)
                f_.close()
        ctx.rmdir(d)


def replay(ctx, rec):
    ctx.inconclusive('replay: re-run ./check C10 with VERIF_SEED=%s' % rec.get('seed'))
