"""C20 — source lines are parsed by the documented column layout or rejected.

Post-condition contract on Source.from_ascii (every successful parse is compared with an
independent reading of the line); outcome classification (object / EOFError / other
exception) recorded at the call boundary; round trips through to_ascii, dict, pickle.
"""
import itertools
import math
import pickle

import numpy as np

from .. import gen, probe

SHARDS = {'quick': 2, 'thorough': 8, 'quick_timeout': 600, 'thorough_timeout': 3600}

GOOD = ('0', '1', '2', '3', '4', '9')
BAD = ('5', '6', '7', '8', '-1', '1.5', 'x', '10', 'nan')


def expected(line):
    """documented layout: name x y, n flags, n (flux, error) pairs.  Returns ('eof',) | ('reject',) | ('ok', dict)"""
    cols = line.split()
    if len(cols) < 3:
        return ('eof',)
    if len(cols) % 3 != 0:
        return ('reject',)
    n = len(cols) // 3 - 1
    try:
        x, y = float(cols[1]), float(cols[2])
    except ValueError:
        return ('reject',)
    flags = []
    for t in cols[3:3 + n]:
        try:
            v = int(t)
        except ValueError:
            return ('reject',)
        if v not in (0, 1, 2, 3, 4, 9):
            return ('reject',)
        flags.append(v)
    vals = []
    for t in cols[3 + n:]:
        try:
            vals.append(float(t))
        except ValueError:
            return ('reject',)
    return ('ok', dict(name=cols[0], x=x, y=y, valid=flags, flux=vals[0::2], error=vals[1::2]))


def matches(s, exp):
    bad = []
    if s.name != exp['name']:
        bad.append('name')
    if not (float(s.x) == exp['x'] and float(s.y) == exp['y']):
        bad.append('coordinates')
    if list(np.asarray(s.valid).tolist()) != exp['valid']:
        bad.append('flags')
    if not probe.same(np.asarray(s.flux, float), np.array(exp['flux'], float)):
        bad.append('fluxes')
    if not probe.same(np.asarray(s.error, float), np.array(exp['error'], float)):
        bad.append('errors')
    return bad


def install(ctx):
    from sedfitter.source import Source

    def from_ascii_post(cls, line, result):
        ctx.event('Source.from_ascii:post')
        exp = expected(line)
        if exp[0] != 'ok':
            ctx.violation('parse:accepted-malformed-line', 'a line that does not fit the 3(n+1)-column layout / flag alphabet was parsed into a source',
                          {'line': line, 'n_columns': len(line.split()), 'parsed_valid': result.valid, 'parsed_flux': result.flux})
        else:
            bad = matches(result, exp[1])
            if bad:
                ctx.violation('parse:mis-assigned:' + bad[0], 'parsed source does not follow the documented column layout: ' + ', '.join(bad),
                              {'line': line, 'valid': result.valid, 'flux': result.flux, 'error': result.error})
        return True

    probe.attach(Source, 'from_ascii', ensure=from_ascii_post)


def outcome(line):
    from sedfitter.source import Source
    try:
        s = Source.from_ascii(line)
    except EOFError:
        return 'eof', None
    except Exception as exc:
        return 'reject', exc
    return 'ok', s


def num_token(rng):
    kind = rng.random()
    if kind < 0.15:
        return rng.choice(['-999', '-9.999e+02', '-999.9', '0', '0.0', '-0.0'])
    v = float(10.0 ** rng.uniform(-30, 30)) * (1 if rng.random() < 0.85 else -1)
    fmt = rng.choice(['%r', '%.3e', '%.10g', '%12.4e', '%f', 'E', '+', 'int.', '.frac'])
    if fmt == '%r':
        return repr(v)
    if fmt == 'E':
        return ('%.5E' % v)
    if fmt == '+':
        return ('%+.4e' % v)
    if fmt == 'int.':
        return '%d.' % int(rng.integers(-10 ** 6, 10 ** 6))
    if fmt == '.frac':
        return '.%d' % int(rng.integers(0, 10 ** 6))
    if fmt == '%f' and abs(math.log10(abs(v))) > 12:
        fmt = '%.6e'
    return (fmt % v).strip()


def run(ctx):
    rng = ctx.rng
    install(ctx)
    ctx.rule = ('lines with every column count 0..3n+6 for n in 0..12 (tokens numeric everywhere, so only the count can betray a bad line), all flag '
                'vectors over the good alphabet for n<=3 and every single bad flag token in every position, values over 60 decades incl. negatives '
                'and -999 placeholders, names 1..40 chars; round trips to_ascii/from_ascii, dict, pickle. a case = one line; non-trivial = n>=1')
    ctx.assume('flag tokens are plain decimal integers; bad tokens tried: 5-8, 10, -1, 1.5, x, nan',
               'printed precision: %9.5f coordinates (abs 5e-6), %11.3e fluxes (rel 5e-4)')
    ctx.require_events('Source.from_ascii:post', 'outcome:ok', 'outcome:eof', 'outcome:reject', 'roundtrip:ascii', 'roundtrip:dict', 'roundtrip:pickle', 'history:earlier-source-rechecked')
    ctx.require_regimes('count:short', 'count:exact', 'count:off', 'bad-flag', 'name:looks-like-a-number-or-keyword')

    def run_line(line, key, sample=None, nontrivial=True):
        exp = expected(line)
        got, obj = outcome(line)
        ctx.event('outcome:' + got)
        if exp[0] != got:
            if exp[0] == 'eof':
                k, what = 'parse:short-line-not-eof', 'a line with fewer than three columns did not end the input (EOFError)'
            elif exp[0] == 'reject':
                k = 'parse:malformed-line-not-rejected' if got == 'ok' else 'parse:malformed-line-ends-input'
                what = 'a malformed line was %s instead of being rejected with an error' % ('accepted' if got == 'ok' else 'treated as end of input')
            else:
                k, what = 'parse:good-line-refused', 'a well-formed line was refused: %r' % (obj,)
            ctx.violation(k, what, {'line': line, 'n_columns': len(line.split()), 'expected': exp[0], 'got': got})
        ctx.case(key, nontrivial=nontrivial, sample=sample)
        return got, obj

    nmax = 12
    i = 0
    # (1) every column count
    for n in range(0, nmax + 1):
        for ncol in range(0, 3 * n + 7):
            for rep in range(2 if ctx.quick else 20):
                if not ctx.mine(i):
                    i += 1
                    continue
                i += 1
                cols = []
                if ncol >= 1:
                    cols.append('src_%d_%d' % (n, ncol))
                while len(cols) < min(ncol, 3):
                    cols.append(num_token(rng))
                nflag = max(0, (ncol - 3)) // 3 if ncol % 3 == 0 else min(max(ncol - 3, 0), n)
                # flags first (numeric good tokens), then numbers; good flag tokens are also valid numbers
                rest = max(ncol - 3, 0)
                nfl = rest // 3 if ncol % 3 == 0 else min(rest, int(rng.integers(0, n + 1)))
                cols += [str(rng.choice(GOOD)) for _ in range(nfl)]
                cols += [num_token(rng) if rng.random() < 0.7 else str(rng.choice(GOOD)) for _ in range(rest - nfl)]
                line = ' '.join(cols) if rng.random() < 0.7 else '   ' + '\t '.join(cols) + ' \n'
                ctx.regime('count:short' if ncol < 3 else ('count:exact' if ncol % 3 == 0 else 'count:off'))
                run_line(line, ('count', n, ncol, rep, ctx.shard), nontrivial=ncol >= 3,
                         sample={'line': line} if ncol == 3 * n + 4 and n == 2 else None)
    # (2) all flag vectors over the good alphabet for n<=3; every bad token in every position
    for n in range(1, 4):
        for vec in itertools.product(GOOD, repeat=n):
            if not ctx.mine(i):
                i += 1
                continue
            i += 1
            vals = [num_token(rng) for _ in range(2 * n)]
            line = ' '.join(['nm', '1.5', '-2.25'] + list(vec) + vals)
            run_line(line, ('flags', vec))
            for pos in range(n):
                for b in BAD:
                    v2 = list(vec)
                    v2[pos] = b
                    ctx.regime('bad-flag')
                    run_line(' '.join(['nm', '1.5', '-2.25'] + v2 + vals), ('badflag', vec, pos, b))
    # (3) sampled larger n with round trips
    from sedfitter.source import Source
    held = []
    for j in range(400 if ctx.quick else 20000):
        n = int(rng.integers(0, nmax + 1))
        if j % 7 == 3:
            name = str(rng.choice(['1e5', '12345', '-999', 'nan', 'inf', '1D3', '0', '9', '3.5', '+2', "O'Neil", '"quoted"', 'a#b', 'E', 'd', 'None', 'True']))
            ctx.regime('name:looks-like-a-number-or-keyword')
        else:
            name = ''.join(rng.choice(list('abcdeDEXYZ0123456789_-.+:;,/\\|()[]{}<>=*&^%$@!~?`\'"'), int(rng.integers(1, 41))))
            if j % 2:
                name = name[:1] + '#' + name[1:39]
        valid = [int(rng.choice([0, 1, 2, 3, 4, 9])) for _ in range(n)]
        vals = [float(num_token(rng)) for _ in range(2 * n)]
        x, y = float(rng.uniform(-360, 360)), float(rng.uniform(-90, 90))
        line = gen.source_line(name, valid, vals[0::2], vals[1::2], x, y)
        got, s = run_line(line, ('rt', j, ctx.shard), nontrivial=n >= 1)
        if got != 'ok':
            continue
        held.append((line, s, probe.canon_source(s)))
        if len(held) > 30:
            held.pop(int(rng.integers(len(held))))
        hl, hs, hc = held[int(rng.integers(len(held)))]
        hc1 = probe.canon_source(hs)
        ctx.event('history:earlier-source-rechecked')
        if any(not (probe.same(hc[k_], hc1[k_]) if isinstance(hc[k_], np.ndarray) else hc[k_] == hc1[k_]) for k_ in hc):
            ctx.violation('parse:earlier-source-changed', 'a source parsed earlier changed when later lines were parsed', {'line': hl, 'later_line': line})
        # to_ascii -> from_ascii
        try:
            text = s.to_ascii()
            g2, s2 = outcome(text)
        except Exception as exc:
            ctx.raised(exc, 'roundtrip:to_ascii-raised', 'formatting a parsed source raised: %r' % (exc,), {'line': line})
            continue
        ctx.event('roundtrip:ascii')
        if g2 != 'ok':
            ctx.violation('roundtrip:formatted-line-not-parsed', 'to_ascii() output is not parsed back', {'line': line, 'formatted': text})
        else:
            bad = []
            if s2.name != s.name:
                bad.append('name')
            if list(s2.valid) != list(s.valid):
                bad.append('flags')
            if abs(s2.x - s.x) > 5.0001e-6 or abs(s2.y - s.y) > 5.0001e-6:
                bad.append('coordinates')
            for a, b in ((s.flux, s2.flux), (s.error, s2.error)):
                a, b = np.asarray(a, float), np.asarray(b, float)
                if a.shape != b.shape or np.any(np.abs(a - b) > 5.001e-4 * np.abs(a)):
                    bad.append('values')
            if bad:
                ctx.violation('roundtrip:ascii-lossy:' + bad[0], 'format-then-parse does not preserve ' + ', '.join(bad),
                              {'line': line, 'formatted': text})
        # dict and pickle: lossless
        try:
            d_ = s.to_dict()
            s3 = Source.from_dict(d_)
            s3 = Source.from_dict(d_)          # the same dictionary serves again (kept by the caller, e.g. stored as JSON-like state)
            d2_ = s3.to_dict()                 # ... and dictionary -> source -> dictionary gives the dictionary back
            if sorted(d2_) != sorted(d_) or sorted(d_) != ['error', 'flux', 'name', 'valid', 'x', 'y']:
                ctx.violation('roundtrip:dict-lossy', 'dictionary -> source -> dictionary does not give the dictionary back', {'line': line, 'keys_before': sorted(d_), 'keys_after': sorted(d2_)})
            ctx.event('roundtrip:dict')
            s4 = pickle.loads(pickle.dumps(s, 2))
            ctx.event('roundtrip:pickle')
        except Exception as exc:
            ctx.raised(exc, 'roundtrip:dict-pickle-raised', 'dict/pickle round trip raised: %r' % (exc,), {'line': line})
            continue
        c0 = probe.canon_source(s)
        for label, t in (('dict', s3), ('pickle', s4)):
            c1 = probe.canon_source(t)
            diff = [k for k in c0 if not (probe.same(c0[k], c1[k]) if isinstance(c0[k], np.ndarray) else c0[k] == c1[k])]
            if diff:
                ctx.violation('roundtrip:%s-lossy' % label, '%s round trip changed %s' % (label, diff), {'line': line})


def replay(ctx, rec):
    w = rec['first']['witness']
    got, obj = outcome(w['line'])
    ctx.case(('replay', w['line']))
    ctx.case(('replay2', w['line']))
    if expected(w['line'])[0] != got:
        ctx.violation(rec['key'], 'replayed', w)
