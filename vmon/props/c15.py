"""C15 — flux unit conversions are mutually consistent and invertible.

Post-condition contract on helpers.convert_flux (patched in every namespace that imported
it) against explicit cgs factors; SED.read(unit_flux=...) on files stored in each unit
(harness-written with legacy and FITS-standard unit strings, and SED.write-written);
the full 5x5 unit matrix is enumerated.
"""
import os

import numpy as np
from astropy import units as u

from .. import gen, pkg, probe
from .. import oracles as O

SHARDS = {'quick': 2, 'thorough': 8, 'quick_timeout': 600, 'thorough_timeout': 3600}

UNITS = {
    'mJy': (u.mJy, ['mJy', 'MJY']),
    'Jy': (u.Jy, ['Jy']),
    'erg/cm2/s': (u.erg / u.cm ** 2 / u.s, ['erg cm-2 s-1', 'ergs/cm^2/s', 'erg / (cm2 s)']),
    'erg/s': (u.erg / u.s, ['erg s-1', 'erg / s']),
    'W/m2': (u.W / u.m ** 2, ['W m-2', 'W / m2']),
}
KPC_CM = pkg.KPC_CM


def to_base(name, f, nu, d_cm):
    """value in erg/cm^2/s from a value in unit `name` (explicit factors)"""
    if name == 'mJy':
        return f * nu * 1e-26
    if name == 'Jy':
        return f * nu * 1e-23
    if name == 'erg/cm2/s':
        return f
    if name == 'W/m2':
        return f * 1e3
    if name == 'erg/s':
        return f / d_cm ** 2
    raise KeyError(name)


def from_base(name, b, nu, d_cm):
    if name == 'mJy':
        return b / nu / 1e-26
    if name == 'Jy':
        return b / nu / 1e-23
    if name == 'erg/cm2/s':
        return b
    if name == 'W/m2':
        return b / 1e3
    if name == 'erg/s':
        return b * d_cm ** 2
    raise KeyError(name)


def unit_name(unit):
    for n, (un, _) in UNITS.items():
        try:
            if unit == un:
                return n
        except Exception:
            pass
    return None


def install(ctx):
    from sedfitter.sed import helpers, sed as sedmod

    def convert_post(nu, flux, target_unit, distance, result):
        ctx.event('convert_flux:post')
        a, b = unit_name(flux.unit), unit_name(target_unit)
        if a is None or b is None:
            return True
        try:
            nuv = np.asarray(nu.to(u.Hz).value, float)
            d = None if distance is None else float(distance.to(u.cm).value)
            if d is None and 'erg/s' in (a, b):
                return True
            ref = from_base(b, to_base(a, np.asarray(flux.value, float), nuv, d), nuv, d)
            got = np.asarray(result.to(target_unit).value, float)
        except Exception:
            return True
        # single-precision inputs (files stored as 1E) are converted with single-precision intermediate results by numpy's own
        # type rules: agreement to 1e-6 is what such data can carry; double-precision inputs must agree to 1e-12
        single = np.asarray(flux.value).dtype.itemsize < 8 or np.asarray(nu.value).dtype.itemsize < 8
        if got.shape != ref.shape or not O.close(got, ref, 1e-6 if single else 1e-12):
            ctx.violation('convert:%s->%s' % (a, b), 'conversion disagrees with F = nu F_nu, L = F d^2',
                          {'from': a, 'to': b, 'nu': nuv, 'distance_cm': d, 'in': flux.value, 'got': got, 'expected': ref})
        return True

    probe.attach(helpers, 'convert_flux', ensure=convert_post, also=(sedmod,))


def run(ctx):
    rng = ctx.rng
    install(ctx)
    from sedfitter.sed import SED
    from sedfitter.sed import helpers
    ctx.rule = ('5x5 matrix of (stored unit, requested unit) enumerated x unit-string spellings (legacy / FITS standard / SED.write) x 1..5 apertures x '
                'random distances and frequency grids; direct convert_flux round trips A->B->A and A->B->C vs A->C; refusals. a case = one '
                '(file, requested unit) read; non-trivial = stored != requested')
    ctx.assume('oracle: explicit cgs factors (1 mJy = 1e-26 erg/s/cm2/Hz, 1 W/m2 = 1e3 erg/s/cm2, L = F d^2 with d in cm as the statement says)',
               'rtol 1e-12', 'a file without the DISTANCE keyword is read as being at 1 kpc (the fallback the reader documents)')
    ctx.require_events('direct:same-grid-other-distance', 'convert_flux:post', 'read:matrix', 'roundtrip:ABA', 'chain:ABC', 'refused:target', 'refused:stored')
    ctx.require_regimes('stored:all-zero-errors', 'read:frequencies-requested-not-in-Hz', 'stored:grid-shared-with-other-files', 'stored:desc-wav', 'stored:asc-wav', 'read-order:nu', 'read-order:wav', 'stored:nu-in-GHz', 'stored:no-distance', 'stored:error-column-other-unit', 'stored:float32')
    d = ctx.newdir('c15')
    names = list(UNITS)
    ic = 0
    wav_shared = np.sort(gen.loguniform(rng, 0.1, 1000.0, 12))
    for rep in range(2 if ctx.quick else 24):
        for a in names:
            for spelling in UNITS[a][1] + ['<SED.write>']:
                ic += 1
                if not ctx.mine(ic):
                    continue
                n_ap = int(rng.integers(1, 6))
                n_w = int(rng.integers(2, 30))
                wav = np.sort(gen.loguniform(rng, 0.1, 1000.0, n_w))
                if ic % 2 == 0:
                    # the SEDs of a model package share one wavelength grid and differ in distance: every other file uses the same grid
                    n_w, wav = len(wav_shared), wav_shared.copy()
                    ctx.regime('stored:grid-shared-with-other-files')
                nu = pkg.C_UM_HZ / wav
                dist_kpc = float(gen.loguniform(rng, 0.01, 100.0)) if (ic + rep) % 3 != 2 else float(gen.loguniform(rng, 50.0, 3000.0))
                d_cm = dist_kpc * KPC_CM
                f = 10.0 ** rng.uniform(-4, 4, (n_ap, n_w))
                e = f * 0.1
                if ic % 5 == 3:
                    e = np.zeros_like(f)          # model SEDs without uncertainties: an error column that is all zeros
                    ctx.regime('stored:all-zero-errors')
                aps = gen.aperture_table(rng, n_ap)
                path = os.path.join(d, 's%d.fits' % ic)
                if spelling == '<SED.write>':
                    s = SED()
                    s.name = 'x'
                    s.distance = d_cm * u.cm
                    s.wav = wav * u.micron
                    s.nu = nu * u.Hz
                    s.apertures = aps * u.au
                    s.flux = f * UNITS[a][0]
                    s.error = e * UNITS[a][0]
                    try:
                        s.write(path)
                    except Exception as exc:
                        ctx.raised(exc, 'write-raised:' + a, 'SED.write raised for a supported unit: %r' % (exc,), {'unit': a})
                        continue
                    fs, es = f[:, ::-1], e[:, ::-1]          # SED.write stores by increasing frequency
                    wav_s, nu_s = wav[::-1], nu[::-1]
                else:
                    dw = bool(rng.random() < 0.5)          # storage order: descending wavelength (as the original packages) or ascending
                    legacy = spelling in ('MJY', 'ergs/cm^2/s')
                    no_dist = a != 'erg/s' and (ic + rep) % 4 == 1         # no DISTANCE keyword: the reader supplies the SED's distance
                    nu_unit = ('GHz', 1e9) if (not legacy and (ic + rep) % 3 == 0) else None
                    # the error column in another unit of the same family than the flux column
                    err_unit, efac = None, 1.0
                    if a in ('mJy', 'Jy') and not legacy and (rep % 2 == 0 or rng.random() < 0.3):
                        err_unit, efac = ('Jy', 1e3) if a == 'mJy' else ('mJy', 1e-3)     # efac: stored-error-unit per flux unit
                        ctx.regime('stored:error-column-other-unit')
                    # single-precision files (1E, the documented format): what is stored is the float32 rounding of the values
                    f32 = (ic + rep) % 3 == 2 and nu_unit is None and err_unit is None
                    if f32:
                        f, e = pkg.r32(f), pkg.r32(e)
                        wav, nu = pkg.r32(wav), pkg.r32(nu)
                        ctx.regime('stored:float32')
                    pkg.write_sed_file(path, 'x', wav, nu, aps, f, e / efac, descending_wav=dw, fmt='E' if f32 else 'D',
                                       legacy_units=legacy, flux_unit=spelling, distance_cm=None if no_dist else d_cm,
                                       nu_unit=nu_unit, err_unit=err_unit)
                    fs, es, wav_s, nu_s = f[:, ::-1], e[:, ::-1], wav[::-1], nu[::-1]      # reference arrays in ascending frequency
                    ctx.regime('stored:desc-wav' if dw else 'stored:asc-wav')
                    if nu_unit:
                        ctx.regime('stored:nu-in-GHz')
                    if no_dist:
                        ctx.regime('stored:no-distance')
                for b in names:
                    wit = {'stored': a, 'spelling': spelling, 'requested': b, 'distance_cm': d_cm, 'n_ap': n_ap}
                    order = 'nu' if rng.random() < 0.5 else 'wav'
                    ctx.regime('read-order:' + order)
                    wit['order'] = order
                    try:
                        # the spectral axis may be requested in any frequency / length unit (the values returned do not depend on it)
                        ufreq = [u.Hz, u.GHz, u.THz, u.Hz][(ic + names.index(b)) % 4]
                        uwav = [u.micron, u.nm, u.micron, u.mm][(ic + names.index(b)) % 4]
                        if ufreq != u.Hz:
                            ctx.regime('read:frequencies-requested-not-in-Hz')
                        r = SED.read(path, unit_flux=UNITS[b][0], order=order, unit_freq=ufreq, unit_wav=uwav)
                    except Exception as exc:
                        ctx.raised(exc, 'read-raised:%s:%s' % (a, 'write' if spelling == '<SED.write>' else 'own'),
                                      'SED.read raised for supported units: %r' % (exc,), wit)
                        continue
                    ctx.event('read:matrix')
                    d_use = d_cm
                    if spelling != '<SED.write>' and no_dist:
                        # "d the SED's distance": without a DISTANCE keyword the reader assumes 1 kpc (its documented fallback), and
                        # the returned object must say so
                        d_use = KPC_CM
                        try:
                            d_obj = float(r.distance.to(u.cm).value)
                        except Exception:
                            d_obj = None
                        if d_obj is None or abs(d_obj / KPC_CM - 1) > 1e-12:
                            ctx.violation('read:no-distance-not-1kpc', 'an SED read from a file without DISTANCE does not report the 1 kpc it is documented to assume',
                                          dict(wit, reported_cm=d_obj))
                            continue
                        wit['distance_cm'] = d_use
                    ok_unit = False
                    try:
                        ok_unit = r.flux.unit.is_equivalent(UNITS[b][0]) and r.error.unit.is_equivalent(UNITS[b][0])
                    except Exception:
                        pass
                    try:          # "with a requested flux unit": the quantities returned are expressed in it (their .value is in that unit)
                        same_unit = bool(r.flux.unit == UNITS[b][0]) and bool(r.error.unit == UNITS[b][0])
                    except Exception:
                        same_unit = False
                    if ok_unit and not same_unit:
                        ctx.violation('read:returned-in-another-unit:%s->%s' % (a, b), 'the values are returned in another unit than the requested one (their numbers are then off by the ratio of the units)',
                                      dict(wit, got_unit=str(r.flux.unit), requested=b))
                        continue
                    if not ok_unit:
                        ctx.violation('read:unit-not-requested:%s' % b, 'the values returned are not in (a unit of the kind of) the requested unit',
                                      dict(wit, got_unit=str(getattr(r.flux, 'unit', None))))
                        continue
                    nu_r = np.asarray(r.nu.to(u.Hz).value, float)
                    ref_f = from_base(b, to_base(a, fs, nu_s, d_use), nu_s, d_use)
                    ref_e = from_base(b, to_base(a, es, nu_s, d_use), nu_s, d_use)
                    gf = np.asarray(r.flux.to(UNITS[b][0]).value, float)
                    ge = np.asarray(r.error.to(UNITS[b][0]).value, float)
                    if order == 'wav':          # ascending wavelength = descending frequency: pair cells by frequency
                        nu_r, gf, ge = nu_r[::-1], gf[:, ::-1], ge[:, ::-1]
                    rt_ = 1e-12 if not (spelling != '<SED.write>' and f32) else 1e-6       # (single-precision results are accepted for single-precision files; overflow is not)
                    if not O.close(nu_r, nu_s, rt_) or not O.close(gf, ref_f, rt_) or not O.close(ge, ref_e, rt_):
                        ctx.violation('read:%s->%s' % (a, b), 'SED.read(unit_flux=...) values are not related by F = nu F_nu, L = F d^2',
                                      dict(wit, got=gf[0][:4], expected=ref_f[0][:4]))
                    ctx.case(('read', ic, b, ctx.shard), nontrivial=a != b, sample=wit if a != b else None)
                # unsupported requested units are refused
                for badu in (u.K, u.m, u.dimensionless_unscaled, u.Hz, u.erg / u.cm ** 2 / u.s / u.AA, u.W / u.m ** 2 / u.micron, u.erg / u.s / u.Hz):          # (F_lambda, L_nu: not among the three supported families)
                    try:
                        SED.read(path, unit_flux=badu)
                    except Exception:
                        ctx.event('refused:target')
                    else:
                        ctx.violation('unsupported-target-accepted', 'an unsupported flux unit was accepted', {'stored': a, 'requested': str(badu)})
                os.remove(path)
        # unsupported stored unit refused
        path = os.path.join(d, 'bad%d.fits' % rep)
        wav = np.array([1.0, 2.0, 3.0])
        for badspell in ('K', 'm', 'Hz', 'erg / (Angstrom cm2 s)', 'W / (m2 um)'):          # (F_lambda is not a supported family)
            pkg.write_sed_file(path, 'x', wav, pkg.C_UM_HZ / wav, None, np.ones((1, 3)), np.ones((1, 3)), legacy_units=False, flux_unit=badspell)
            try:
                SED.read(path, unit_flux=u.mJy)
            except Exception:
                ctx.event('refused:stored')
            else:
                ctx.violation('unsupported-stored-accepted', 'an SED stored in an unsupported unit was read', {'stored': badspell})
        os.remove(path)
        # direct conversions: A->B->A and A->B->C = A->C
        for it in range(40 if ctx.quick else 200):
            n_w = int(rng.integers(1, 20))
            nu = (10.0 ** rng.uniform(10, 16, n_w)) * u.Hz
            if it % 2 == 1:
                # the same frequency grid as the previous round, at another distance (the contract on convert_flux holds the reference)
                nu = nu_prev.copy()
                n_w = len(nu)
                ctx.event('direct:same-grid-other-distance')
            nu_prev = nu.copy()
            dq = float(gen.loguniform(rng, 1e-3, 1e3)) * u.kpc
            f = 10.0 ** rng.uniform(-6, 6, (int(rng.integers(1, 6)), n_w))
            for a in names:
                fa = f * UNITS[a][0]
                for b in names:
                    try:
                        fb = helpers.convert_flux(nu, fa, UNITS[b][0], distance=dq)
                        back = helpers.convert_flux(nu, fb, UNITS[a][0], distance=dq)
                    except Exception as exc:
                        ctx.raised(exc, 'convert-raised:%s->%s' % (a, b), 'convert_flux raised for supported units: %r' % (exc,), {'from': a, 'to': b})
                        continue
                    ctx.event('roundtrip:ABA')
                    # ... the identity as the caller sees it: the quantity handed over is still the quantity it was (same unit, same numbers)
                    try:
                        untouched = bool(fa.unit == UNITS[a][0]) and O.close(np.asarray(fa.value, float), f, 1e-15)
                    except Exception:
                        untouched = False
                    if not untouched:
                        ctx.violation('not-invertible:%s->%s:callers-quantity' % (a, b), 'after A->B->A the quantity the caller started from is no longer what it was (A->B->A is not the identity on it)',
                                      {'from': a, 'to': b, 'unit_now': str(getattr(fa, 'unit', None))})
                        fa = f * UNITS[a][0]
                    if not O.close(back.to(UNITS[a][0]).value, f, 1e-12):
                        ctx.violation('not-invertible:%s->%s' % (a, b), 'A->B->A is not the identity', {'from': a, 'to': b})
                    c = names[int(rng.integers(len(names)))]
                    fc1 = helpers.convert_flux(nu, fb, UNITS[c][0], distance=dq)
                    fc2 = helpers.convert_flux(nu, fa, UNITS[c][0], distance=dq)
                    ctx.event('chain:ABC')
                    if not O.close(fc1.to(UNITS[c][0]).value, fc2.to(UNITS[c][0]).value, 1e-12):
                        ctx.violation('not-consistent:%s->%s->%s' % (a, b, c), 'A->B->C differs from A->C', {'from': a, 'via': b, 'to': c})
            ctx.case(('direct', rep, it, ctx.shard), nontrivial=True)


def replay(ctx, rec):
    ctx.inconclusive('replay: re-run ./check C15 with VERIF_SEED=%s' % rec.get('seed'))
