"""C13 — aperture interpolation: exact at tabulated radii, linear between, clamped above.

snapshot+post-condition contracts on ConvolvedFluxes.interpolate, SED.interpolate and
SED.interpolate_variable against a python bisect interpolation; refusals (below the table)
are observed at the call boundary.
"""
import numpy as np
from astropy import units as u

from .. import gen, pkg, probe
from .. import oracles as O

SHARDS = {'quick': 2, 'thorough': 8, 'quick_timeout': 600, 'thorough_timeout': 3600}

AU = {'au': 1.0, 'pc': 206264.80624709636, 'cm': 1.0 / 1.495978707e13}


def ref_interp(tab, vals, req):
    """vals[..., n_ap]; returns [..., n_req]; None if any request is below the table"""
    out = []
    for a in req:
        if len(tab) > 1 and a < tab[0]:
            return None
        out.append(O.interp_aperture(tab, vals, a))
    return np.stack(out, axis=-1)


def slope_tol(tab, vals, req, ulps=2e-15):
    """|dy/dx| of the segment(s) a request touches, times the request's own round-off (vals[n_m, n_ap] -> [n_m, n_req])"""
    vals = np.asarray(vals, float)
    out = np.zeros((vals.shape[0], len(req)))
    if tab is None or len(tab) < 2:
        return out
    tab = np.asarray(tab, float)
    sl = np.abs(np.diff(vals, axis=1)) / np.diff(tab)[None, :]          # [n_m, n_ap-1]
    for j, a in enumerate(req):
        i = int(np.clip(np.searchsorted(tab, a) - 1, 0, len(tab) - 2))
        s_ = sl[:, i]
        if i + 1 < sl.shape[1]:
            s_ = np.maximum(s_, sl[:, i + 1])
        if i > 0:
            s_ = np.maximum(s_, sl[:, i - 1])
        out[:, j] = s_ * abs(float(a)) * ulps
    return out


def within_single_precision(tab, vals, req, got, delta=4e-7):
    """radii given in single precision: every conversion of the radius may round it by ~6e-8, which a steep table amplifies.
    got must lie within the range the interpolant takes over [req*(1-delta), req*(1+delta)] (clamped to the table; the range
    of a piecewise-linear function over an interval is spanned by its values at the ends and at the knots inside), to 1e-6."""
    if tab is None or len(tab) < 2:
        return None
    tab = np.asarray(tab, float)
    req = np.asarray(req, float)
    if np.any(req < tab[0] * (1 - delta)):
        return None
    lo = np.full(np.shape(got), np.inf)
    hi = np.full(np.shape(got), -np.inf)
    for j, a in enumerate(req):
        pts = [max(a * (1 - delta), tab[0]), max(a, tab[0]), a * (1 + delta)] + [t for t in tab if a * (1 - delta) < t < a * (1 + delta)]
        for x in pts:
            v = np.asarray(O.interp_aperture(tab, vals, x), float)
            lo[..., j] = np.minimum(lo[..., j], v)
            hi[..., j] = np.maximum(hi[..., j], v)
    tol = 1e-6 * np.maximum(np.abs(lo), np.abs(hi))
    return bool(np.all((got >= lo - tol) & (got <= hi + tol)))


SINGLE_CF = [False]
SINGLE = [False, False]       # the current request of SED.interpolate / interpolate_variable is a single-precision array


HELD = {}      # id(request array the driver passes to several calls) -> the radii the driver put into it


def _requested(apertures):
    """the radii asked for: for an array object the driver re-uses across calls, the values it put in (a call that overwrites its
    argument must not change what the next call is asked)"""
    h = HELD.get(id(apertures))
    return h.copy() if h is not None else np.array(apertures, float, copy=True)


def install(ctx):
    from sedfitter.convolved_fluxes import ConvolvedFluxes
    from sedfitter.sed import SED

    def cf_snapshot(self, apertures):
        SINGLE_CF[0] = np.asarray(apertures.value).dtype.kind == 'f' and np.asarray(apertures.value).dtype.itemsize < 8
        # fluxes and errors are taken in mJy whatever unit the table holds them in (they may differ from each other)
        return (HELD[id(apertures)].copy() if id(apertures) in HELD else probe.arr(apertures.to(u.au)),
                probe.arr(self.flux.to(u.mJy)), None if self.error is None else probe.arr(self.error.to(u.mJy)),
                probe.arr(self.model_names), None if self.apertures is None else probe.arr(self.apertures.to(u.au)), self.central_wavelength,
                probe.arr(self.flux))

    def cf_post(self, apertures, OLD, result):
        ctx.event('ConvolvedFluxes.interpolate:post')
        req, fl, er, names, tab, cw, fl_raw = OLD.S
        wit = {'table_au': tab, 'request_au': req, 'n_models': len(names), 'flux_unit': str(self.flux.unit),
               'error_unit': None if self.error is None else str(self.error.unit)}
        had_errors = er is not None
        if er is None:            # a table without errors (optional): only the fluxes are judged
            er = fl
            ctx.event('convolved:table-without-errors')
        if tab is None or len(tab) == 1:
            ref_f = np.repeat(fl[:, :1], len(req), axis=1)
            ref_e = np.repeat(er[:, :1], len(req), axis=1)
        else:
            ref_f, ref_e = ref_interp(tab, fl, req), ref_interp(tab, er, req)
            if ref_f is None:
                # a request 1 ulp below the smallest knot after a unit round trip may be refused or served
                if np.all(req >= tab[0] * (1 - 1e-12)):
                    return True
                ctx.violation('convolved:below-table-served', 'a radius below the smallest tabulated aperture was not refused', wit)
                return True
        try:
            gf = np.asarray(result.flux.to(u.mJy).value, float)
            ge = np.asarray(result.error.to(u.mJy).value, float) if result.error is not None else None
        except Exception as exc:
            ctx.raised(exc, 'convolved:result-unit', 'the interpolated table does not carry a flux unit: %r' % (exc,), wit)
            return True
        if had_errors and ge is None:
            ctx.violation('convolved:errors-dropped', 'the table has errors but the interpolated table has none', wit)
            return True
        if ge is None:
            ge = ref_e
        if SINGLE_CF[0] and gf.shape == ref_f.shape and ge.shape == ref_e.shape:
            okf = within_single_precision(tab, fl, req, gf)
            oke = within_single_precision(tab, er, req, ge)
            mismatch = (okf is False) or (oke is False) or (okf is None and not (O.close(gf, ref_f, 1e-6) and O.close(ge, ref_e, 1e-6)))
        else:
            # the radius the table is asked at is known to a few units in its last place only (it went through unit conversions on
            # both sides): where the table is steep that alone moves the interpolant by |dy/dx| * ulps(x)
            mismatch = gf.shape != ref_f.shape or np.any(np.abs(gf - ref_f) > 1e-11 * np.abs(ref_f) + slope_tol(tab, fl, req)) or \
                np.any(np.abs(ge - ref_e) > 1e-11 * np.abs(ref_e) + slope_tol(tab, er, req))
        if mismatch:
            bad = 'above' if tab is not None and np.any(req > tab[-1]) else 'inside'
            ctx.violation('convolved:wrong-interpolant:' + bad, 'interpolated convolved fluxes are not exact-at-knots / linear-between / clamped-above',
                          dict(wit, got=gf[0] if gf.ndim == 2 else gf, expected=ref_f[0]))
        if not probe.same(result.model_names, names) or result.central_wavelength != cw:
            ctx.violation('convolved:identity-touched', 'model order, names or wavelength changed by interpolation', wit)
        if not probe.same(self.flux.value, fl_raw):       # not in the statement as such; its consequence (same request, same answer later) is checked by the driver
            ctx.event('convolved:table-modified-by-interpolate')
        return True

    def sed_snapshot(self, apertures):
        SINGLE[0] = np.asarray(apertures).dtype.kind == 'f' and np.asarray(apertures).dtype.itemsize < 8
        return (_requested(apertures), probe.arr(self.flux.to(u.mJy)),
                None if self.apertures is None else probe.arr(self.apertures.to(u.au)), float((1.0 * self.flux.unit).to(u.mJy).value))

    def sed_post(self, apertures, OLD, result):
        ctx.event('SED.interpolate:post')
        req, fl, tab, per_unit = OLD.S
        wit = {'table_au': tab, 'request_au': req, 'flux_unit': str(self.flux.unit)}
        if tab is None or len(tab) == 1:
            ref = np.repeat(fl[0][:, None], len(req), axis=1)
        else:
            ref = ref_interp(tab, fl.T, req)       # [n_wav, n_req]
            if ref is None:
                if np.all(req >= tab[0] * (1 - 1e-12)):
                    return True
                ctx.violation('sed:below-table-served', 'a radius below the smallest tabulated aperture was not refused', wit)
                return True
        # a quantity is compared in mJy; bare numbers are in the unit the SED holds its fluxes in
        got = np.asarray(result.to(u.mJy).value, float) if hasattr(result, 'to') else np.asarray(result, float) * per_unit
        if SINGLE[0] and got.shape == ref.shape:
            ok1 = within_single_precision(tab, fl.T, req, got)
            mismatch = (ok1 is False) or (ok1 is None and not O.close(got, ref, 1e-6))
        else:
            mismatch = got.shape != ref.shape or not O.close(got, ref, 1e-11)
        if mismatch:
            ctx.violation('sed:wrong-interpolant', 'SED interpolated in aperture is not exact-at-knots / linear-between / clamped-above',
                          dict(wit, got=got[:3], expected=ref[:3]))
        return True

    def var_snapshot(self, wavelengths, apertures):
        SINGLE[1] = np.asarray(apertures).dtype.kind == 'f' and np.asarray(apertures).dtype.itemsize < 8
        return (np.array(wavelengths, float, copy=True), _requested(apertures), probe.arr(self.flux.to(u.mJy)),
                None if self.apertures is None else probe.arr(self.apertures.to(u.au)), probe.arr(self.wav.to(u.micron)),
                float((1.0 * self.flux.unit).to(u.mJy).value))

    def var_post(self, wavelengths, apertures, OLD, result):
        ctx.event('SED.interpolate_variable:post')
        fw, req, fl, tab, sw, per_unit = OLD.S
        got = np.asarray(result.to(u.mJy).value, float) if hasattr(result, 'to') else np.asarray(result, float) * per_unit
        wit = {'table_au': tab, 'filter_wav': fw, 'filter_ap_au': req}
        if got.shape != sw.shape:
            ctx.violation('variable:shape', 'composite SED has the wrong shape', wit)
            return True
        for j, w in enumerate(fw):
            i = np.where(sw == w)[0]
            if i.size == 0:
                continue
            i = int(i[0])
            ctx.event('variable:node-checked')
            if tab is None or len(tab) == 1:
                lo = hi = fl[0, i]
            else:
                a = req[j]
                if a < tab[0]:
                    continue
                if a > tab[-1]:       # by design clamped to 0.999 a_max: anything between the two interpolants is accepted
                    v1 = float(O.interp_aperture(tab, fl[:, i], 0.999 * tab[-1]))
                    v2 = float(fl[-1, i])
                    lo, hi = min(v1, v2), max(v1, v2)
                else:
                    lo = hi = float(O.interp_aperture(tab, fl[:, i], a))
            tol = 1e-9 * max(abs(lo), abs(hi))
            if SINGLE[1] and tab is not None and len(tab) > 1 and req[j] <= tab[-1]:
                # a radius given in single precision: the band between the interpolants at a*(1 -+ 4e-7), to 1e-6
                v_lo = float(O.interp_aperture(tab, fl[:, i], max(req[j] * (1 - 4e-7), tab[0])))
                v_hi = float(O.interp_aperture(tab, fl[:, i], min(req[j] * (1 + 4e-7), tab[-1])))
                lo, hi = min(lo, v_lo, v_hi), max(hi, v_lo, v_hi)
                tol = 1e-6 * max(abs(lo), abs(hi))
            elif SINGLE[1]:
                tol = 1e-6 * max(abs(lo), abs(hi))
            if not (lo - tol <= got[i] <= hi + tol):
                ctx.violation('variable:wrong-at-filter-wavelength', 'composite SED at a filter wavelength is not the linear interpolant at that filter\'s aperture',
                              dict(wit, wavelength=float(w), aperture=float(req[j]), got=float(got[i]), expected=(lo, hi)))
        return True

    probe.attach(ConvolvedFluxes, 'interpolate', ensure=cf_post, snapshot=cf_snapshot)
    probe.attach(SED, 'interpolate', ensure=sed_post, snapshot=sed_snapshot)
    probe.attach(SED, 'interpolate_variable', ensure=var_post, snapshot=var_snapshot)


def requests(rng, tab, n):
    """inside / on knots / above; never below (those are driven separately)"""
    out = []
    for _ in range(n):
        r = rng.random()
        if len(tab) == 1:
            out.append(float(gen.loguniform(rng, tab[0] * 0.01, tab[0] * 100)))
        elif r < 0.45:
            out.append(float(gen.loguniform(rng, tab[0] * (1 + 1e-9), tab[-1])))
        elif r < 0.7:
            out.append(float(tab[int(rng.integers(len(tab)))]))
        else:
            out.append(float(tab[-1] * 10 ** rng.uniform(1e-9, 3)))
    return np.array(out)


def run(ctx):
    rng = ctx.rng
    install(ctx)
    from sedfitter.convolved_fluxes import ConvolvedFluxes
    from sedfitter.sed import SED
    ctx.rule = ('tables with 1..8 increasing apertures x 1..6 models, requests inside / on knots / above / below, as quantities in au, pc, cm '
                '(ConvolvedFluxes) or bare numbers in AU against SEDs whose apertures are stored in au or cm (SED methods); '
                'a case = one interpolate call; non-trivial = >=2 apertures')
    ctx.assume('the smallest knot is requested only in the table\'s own unit (a unit round trip can land 1 ulp below it and be legitimately refused)',
               'interpolate_variable clamps to 0.999*a_max by design: anything between the interpolants at 0.999*a_max and a_max is accepted',
               'rtol 1e-11 (1e-9 for the composite SED)')
    ctx.require_regimes('on-knot:in-another-unit', 'convolved:flux-rises-fourteen-decades-with-aperture')
    ctx.require_events('convolved:result-at-tabulated-radii-modified', 'sed:same-request-array-reused-across-tables', 'convolved:same-request-quantity-reused-across-tables', 'ConvolvedFluxes.interpolate:post', 'SED.interpolate:post', 'SED.interpolate_variable:post', 'variable:node-checked',
                       'refused:convolved', 'refused:sed', 'refused:variable', 'convolved:same-table-again', 'convolved:table-changed-between-calls', 'convolved:table-without-errors', 'sed:apertures-replaced-between-calls', 'sed:fluxes-replaced-between-calls', 'convolved:apertures-replaced-between-calls', 'convolved:request-dtypes', 'convolved:flux-scaled-with-augmented-assignment')
    ctx.require_regimes('sed:request-as-integers', 'sed:request-as-float32', 'single-aperture', 'convolved:no-apertures', 'convolved:flux-unit-not-mJy', 'convolved:error-unit-differs', 'sed:desc-wav', 'sed:flux-unit-not-mJy', 'unit:pc', 'unit:cm', 'sed-apertures:cm', 'above-table', 'on-knot')
    n_it = 250 if ctx.quick else 10000
    for it in range(n_it):
        n_ap = int(rng.integers(1, 9))
        n_m = int(rng.integers(1, 7))
        tab = gen.aperture_table(rng, n_ap)
        if n_ap == 1:
            ctx.regime('single-aperture')
        # ---------------- ConvolvedFluxes ----------------
        tunit = str(rng.choice(['au', 'pc', 'cm']))
        cf = ConvolvedFluxes()
        cf.central_wavelength = float(gen.loguniform(rng, 0.3, 500)) * u.micron
        cf.model_names = np.array(rng.permutation(['m%d' % (i * 5 + 2) for i in range(n_m)]))      # not in lexical order
        tq = (tab * u.au).to(u.Unit(tunit))
        no_ap = n_ap == 1 and rng.random() < 0.5
        if no_ap:
            ctx.regime('convolved:no-apertures')       # a table without apertures is a single-aperture table
        else:
            cf.apertures = tq
        fl = gen.conv_grid(rng, n_m, 1, n_ap=n_ap)[:, :, 0]
        if it % 7 == 3 and n_ap >= 2:
            # a point source inside a bright extended envelope: the flux rises by fourteen decades from the smallest to the largest aperture
            fl = fl * 10.0 ** np.linspace(-12.0, 2.0, n_ap)[None, :]
            ctx.regime('convolved:flux-rises-fourteen-decades-with-aperture')
        # the table may hold its fluxes in mJy, Jy or uJy, and its errors in another of these
        cfu = [u.mJy, u.Jy, u.uJy][it % 3]
        cfe = [u.mJy, u.Jy, u.uJy][(it // 3) % 3]
        if cfu != u.mJy:
            ctx.regime('convolved:flux-unit-not-mJy')
        if cfe != cfu:
            ctx.regime('convolved:error-unit-differs')
        cf.flux = (fl * u.mJy).to(cfu)
        if it % 10 != 7:
            cf.error = (fl * rng.uniform(0.01, 0.3, fl.shape) * u.mJy).to(cfe)      # not proportional to the fluxes
        tab_au = np.asarray(tq.to(u.au).value, float)          # what the table is, after the user's unit choice
        req = requests(rng, tab_au, int(rng.integers(1, 7)))
        runit = str(rng.choice(['au', 'pc', 'cm']))
        ctx.regime('unit:' + runit)
        if runit == tunit:
            # knots requested in the table's own unit, exactly
            rq = []
            for a in req:
                k = np.where(tab_au == a)[0]
                rq.append(float(tq.value[k[0]]) if k.size else float((a * u.au).to(u.Unit(tunit)).value))
            rq = np.array(rq) * u.Unit(tunit)
            if np.any(np.isin(req, tab_au)):
                ctx.regime('on-knot')
        elif it % 2 == 0 and np.any(np.isin(req, tab_au)):
            # knots requested in another length unit, as a user computes them: table.apertures.to(unit) - "on the table" in that unit
            rq = []
            for a in req:
                k = np.where(tab_au == a)[0]
                rq.append(float(tq[k[0]].to(u.Unit(runit)).value) if k.size else float((a * u.au).to(u.Unit(runit)).value))
            rq = np.array(rq) * u.Unit(runit)
            ctx.regime('on-knot:in-another-unit')
        else:
            req = np.array([a * (1 + 1e-9) if a in tab_au else a for a in req])
            rq = (req * u.au).to(u.Unit(runit))
        if np.any(req > tab_au[-1]):
            ctx.regime('above-table')
        wit = {'table': tq, 'request': rq, 'n_models': n_m}
        try:
            first = cf.interpolate(rq)
            if it % 4 == 1 and n_ap >= 2:
                # radii given as whole numbers / in single precision
                try:
                    cf.interpolate(np.ceil(req).astype(np.int64) * u.au)
                    cf.interpolate(np.maximum(req.astype(np.float32), np.nextafter(np.float32(tab_au[0]), np.float32(np.inf))) * u.au)
                    ctx.event('convolved:request-dtypes')
                except Exception as exc:
                    ctx.raised(exc, 'convolved:raised:request-dtype', 'ConvolvedFluxes.interpolate raised for radii inside/above the table given as integers / float32: %r' % (exc,), wit)
            first = (probe.arr(first.flux), probe.arr(first.error) if first.error is not None else probe.arr(first.flux))
            if it % 3 == 0:
                # the same table interpolated again to other radii and to the first ones once more: no state may carry over
                # (the contract snapshots request and table before every call)
                for un2 in rng.permutation(['au', 'pc', 'cm']):       # ... and in other length units
                    cf.interpolate((requests(rng, tab_au, 3) * (1 + 1e-9) * u.au).to(u.Unit(str(un2))))
                cf.interpolate((req * (1 + 1e-9) * u.au).to(u.Unit(runit)))
                if not no_ap:
                    # a result obtained at exactly the tabulated radii is then worked with (scaled to a distance, re-ordered, given
                    # another wavelength - what the fitter does with such results): the table it came from must not follow
                    on_tab = cf.interpolate(cf.apertures.copy())
                    on_tab.flux = on_tab.flux * 3.0
                    if on_tab.error is not None:
                        on_tab.error = on_tab.error * 3.0
                        on_tab.sort_to_match(np.array(list(on_tab.model_names)[::-1]))
                    on_tab.central_wavelength = on_tab.central_wavelength * 2.0
                    ctx.event('convolved:result-at-tabulated-radii-modified')
                again = cf.interpolate(rq)
                if not (O.close(probe.arr(again.flux), first[0], 1e-12) and O.close(probe.arr(again.error) if again.error is not None else probe.arr(again.flux), first[1], 1e-12)):
                    ctx.violation('convolved:same-request-other-answer', 'the same table gives another answer to the same request after other requests were served', wit)
                ctx.event('convolved:same-table-again')
            if it % 3 == 1:
                # the table itself changed by the user between calls (values re-assigned; rows re-ordered with sort_to_match):
                # every call must answer from the table as it is then (the contract snapshots it before each call)
                cf.flux *= 1.7          # (augmented assignment: the same array object, scaled in place and assigned back)
                cf.interpolate(rq)
                ctx.event('convolved:flux-scaled-with-augmented-assignment')
                fl2 = gen.conv_grid(rng, n_m, 1, n_ap=n_ap)[:, :, 0]
                cf.flux = (fl2 * u.mJy).to(cfe)
                if cf.error is not None:
                    cf.error = (fl2 * rng.uniform(0.01, 0.3, fl2.shape) * u.mJy).to(cfu)
                cf.interpolate(rq)
                if n_ap >= 2 and not no_ap:
                    # ... the aperture table replaced (same number of radii; other values, another unit)
                    tab3 = tab * float(rng.uniform(1.3, 2.5))
                    cf.apertures = (tab3 * u.au).to(u.Unit(str(rng.choice(['au', 'pc', 'cm']))))
                    t3 = np.asarray(cf.apertures.to(u.au).value, float)
                    cf.interpolate((requests(rng, t3, 3) * (1 + 1e-9) * u.au).to(u.Unit(runit)))
                    ctx.event('convolved:apertures-replaced-between-calls')
                    cf.apertures = tq
                new_order = np.array(rng.permutation(list(cf.model_names)))
                if cf.error is not None:          # (re-ordering a table without errors is not part of this property)
                    cf.sort_to_match(new_order)
                if list(cf.model_names) == list(new_order):
                    cf.interpolate(rq)
                    ctx.event('convolved:table-changed-between-calls')
            if it % 4 == 3 and n_ap >= 2 and not no_ap:
                # one and the same request quantity handed to two tables one after the other, the first ending well below some radii
                import copy as _copy
                cf0 = _copy.deepcopy(cf)
                cf0.apertures = (np.asarray(cf.apertures.to(u.au).value, float) * 0.2) * u.au
                t_now = np.asarray(cf.apertures.to(u.au).value, float)
                shq = np.array(np.append(req, max(t_now[-1] * 0.9, t_now[0] * 1.001)), float) * u.au
                HELD[id(shq)] = np.array(shq.value, float)
                cf0.interpolate(shq)
                cf.interpolate(shq)
                HELD.clear()
                ctx.event('convolved:same-request-quantity-reused-across-tables')
        except Exception as exc:
            ctx.raised(exc, 'convolved:raised', 'ConvolvedFluxes.interpolate raised inside the table: %r' % (exc,), wit)
        ctx.case(('cf', it, ctx.shard), nontrivial=n_ap >= 2, sample={'table_au': tab_au, 'request_au': req} if it < 3 else None)
        if n_ap >= 2:
            below = np.append(req, tab_au[0] * (1 - 10 ** rng.uniform(-9, -0.3)))
            try:
                cf.interpolate((below * u.au).to(u.Unit(runit)))
            except Exception:
                ctx.event('refused:convolved')
            else:
                ctx.violation('convolved:below-table-served', 'a radius below the smallest tabulated aperture was not refused', dict(wit, request_au=below))

        # ---------------- SED ----------------
        n_w = int(rng.integers(2, 15))
        wav = np.sort(gen.loguniform(rng, 0.1, 1000, n_w))
        s = SED()
        s.name = 'x'
        s.distance = 1 * u.kpc
        sdesc = bool(it % 2)            # SEDs as read from files come in decreasing wavelength
        if sdesc:
            ctx.regime('sed:desc-wav')
        s.wav = (wav[::-1] if sdesc else wav) * u.micron
        sunit = str(rng.choice(['au', 'cm']))
        if sunit == 'cm':
            ctx.regime('sed-apertures:cm')
        sq = (tab * u.au).to(u.Unit(sunit))
        s.apertures = sq
        tab_s = np.asarray(sq.to(u.au).value, float)
        sfl = gen.conv_grid(rng, 1, n_w, n_ap=n_ap)[0]            # [n_ap, n_wav], in the order of s.wav
        sfu = [u.mJy, u.Jy][(it // 2) % 2]
        if sfu != u.mJy:
            ctx.regime('sed:flux-unit-not-mJy')
        s.flux = (sfl * u.mJy).to(sfu)
        s.error = (sfl * 0.1 * u.mJy).to(sfu)
        req = requests(rng, tab_s, int(rng.integers(1, 5)))
        if sunit != 'au':
            req = np.array([a * (1 + 1e-9) if a == tab_s[0] else a for a in req])
        wit = {'table_au': tab_s, 'request_au': req, 'sed_aperture_unit': sunit}
        # "bare numbers (AU)": whole numbers and single-precision arrays are bare numbers too
        rdt = ['f8', 'i8', 'f4'][it % 3]
        req_t = req.copy()
        if rdt == 'i8' and n_ap >= 2:
            req_t = np.ceil(req).astype(np.int64)
            ctx.regime('sed:request-as-integers')
        elif rdt == 'f4' and n_ap >= 2:
            req_t = np.maximum(req.astype(np.float32), np.float32(tab_s[0]) if np.float32(tab_s[0]) >= tab_s[0] else np.nextafter(np.float32(tab_s[0]), np.float32(np.inf)))
            ctx.regime('sed:request-as-float32')
        try:
            s.interpolate(req_t.copy())
        except Exception as exc:
            ctx.raised(exc, 'sed:raised:%s' % type(exc).__name__, 'SED.interpolate raised for radii inside/above the table given as %s: %r' % (req_t.dtype, exc),
                       {'table_au': tab_s, 'request_au': req_t, 'request_dtype': str(req_t.dtype)})
        try:
            s.interpolate(req.copy())
            if it % 3 == 0:
                s.interpolate(requests(rng, tab_s, 2) * (1 + 1e-9))
                s.interpolate(req.copy())
            if it % 3 == 1 and n_ap >= 2:
                # the aperture table of a live SED replaced (same number of radii, other values / another unit), fluxes untouched:
                # every call must answer from the table as it is then (the contract snapshots it before each call)
                tab2 = tab * float(rng.uniform(1.2, 3.0))
                s.apertures = (tab2 * u.au).to(u.Unit(str(rng.choice(['au', 'cm', 'pc']))))
                tab2_au = np.asarray(s.apertures.to(u.au).value, float)
                r2 = requests(rng, tab2_au, 3)
                r2 = np.array([a * (1 + 1e-9) if a == tab2_au[0] else a for a in r2])
                s.interpolate(r2.copy())
                fa2 = requests(rng, tab2_au, 2)
                fa2 = np.array([a * (1 + 1e-9) if a == tab2_au[0] else a for a in fa2])
                s.interpolate_variable(wav[:2].copy(), fa2.copy())
                ctx.event('sed:apertures-replaced-between-calls')
                s.apertures = sq
                # ... and the fluxes replaced (apertures untouched)
                sfl2 = gen.conv_grid(rng, 1, n_w, n_ap=n_ap)[0]
                s.flux = (sfl2 * u.mJy).to(sfu)
                s.error = (sfl2 * 0.1 * u.mJy).to(sfu)
                s.interpolate(req.copy())
                ctx.event('sed:fluxes-replaced-between-calls')
        except Exception as exc:
            ctx.raised(exc, 'sed:raised:%s' % type(exc).__name__, 'SED.interpolate raised for radii inside/above the table: %r' % (exc,), wit)
        if it % 4 == 2 and n_ap >= 2:
            # one and the same request array (bare float64 numbers) handed to two SEDs one after the other, the first with a table
            # that ends well below some of the radii: the second SED is still asked for the radii the caller put in
            shared = np.array(np.append(req, max(tab_s[-1] * 0.9, tab_s[0] * 1.001)), float)
            HELD[id(shared)] = shared.copy()
            s0 = SED()
            s0.name = 'small'
            s0.distance = 1 * u.kpc
            s0.wav = s.wav.copy()
            s0.apertures = (tab_s * 0.2) * u.au
            s0.flux = s.flux.copy()
            s0.error = s.error.copy()
            fwv = wav[:2].copy()
            shared_v = np.array([max(tab_s[-1] * 0.9, tab_s[0] * 1.001), max(tab_s[-1] * 0.5, tab_s[0] * 1.001)], float)
            HELD[id(shared_v)] = shared_v.copy()
            try:
                s0.interpolate(shared)
                s.interpolate(shared)
                s0.interpolate_variable(fwv, shared_v)
                s.interpolate_variable(fwv, shared_v)
                ctx.event('sed:same-request-array-reused-across-tables')
            except Exception as exc:
                ctx.raised(exc, 'sed:raised:shared-request:%s' % type(exc).__name__, 'SED.interpolate raised for a request array used twice: %r' % (exc,),
                           {'table_au': tab_s, 'request_au': HELD[id(shared)]})
            HELD.clear()
        ctx.case(('sed', it, ctx.shard), nontrivial=n_ap >= 2)
        if n_ap >= 2:
            below = np.append(req, tab_s[0] * (1 - 10 ** rng.uniform(-9, -0.3)))
            try:
                s.interpolate(below.copy())
            except Exception as exc:
                ctx.event('refused:sed')          # (however the refusal is worded)
            else:
                ctx.violation('sed:below-table-served', 'a radius below the smallest tabulated aperture was not refused', dict(wit, request_au=below))
        # variable: filters at SED nodes
        nf = int(rng.integers(1, min(6, n_w) + 1))
        fi = rng.choice(n_w, nf, replace=False)
        fw = wav[fi]
        fa = requests(rng, tab_s, nf)
        if sunit != 'au':
            fa = np.array([a * (1 + 1e-9) if a == tab_s[0] else a for a in fa])
        wit = {'table_au': tab_s, 'filter_wav': fw, 'filter_ap_au': fa}
        fa_t = fa.copy()
        if rdt == 'i8' and n_ap >= 2:
            fa_t = np.ceil(fa).astype(np.int64)
        elif rdt == 'f4' and n_ap >= 2:
            fa_t = np.maximum(fa.astype(np.float32), np.nextafter(np.float32(tab_s[0]), np.float32(np.inf)))
        if fa_t.dtype != fa.dtype:
            try:
                s.interpolate_variable(fw.copy(), fa_t.copy())
            except Exception as exc:
                ctx.raised(exc, 'variable:raised:%s' % fa_t.dtype, 'SED.interpolate_variable raised inside the table for apertures given as %s: %r' % (fa_t.dtype, exc),
                           {'table_au': tab_s, 'filter_wav': fw, 'filter_ap_au': fa_t})
        try:
            s.interpolate_variable(fw.copy(), fa.copy())
        except Exception as exc:
            ctx.raised(exc, 'variable:raised', 'SED.interpolate_variable raised inside the table: %r' % (exc,), wit)
        ctx.case(('var', it, ctx.shard), nontrivial=n_ap >= 2)
        if n_ap >= 2:
            fb = fa.copy()
            fb[int(rng.integers(nf))] = tab_s[0] * (1 - 10 ** rng.uniform(-9, -0.3))
            try:
                s.interpolate_variable(fw.copy(), fb)
            except Exception:
                ctx.event('refused:variable')
            else:
                ctx.violation('variable:below-table-served', 'a radius below the smallest tabulated aperture was not refused', dict(wit, filter_ap_au=fb))


def replay(ctx, rec):
    ctx.inconclusive('replay: re-run ./check C13 with VERIF_SEED=%s' % rec.get('seed'))
