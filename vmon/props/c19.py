"""C19 — a fit output file cut short by a crash never yields a wrong record.

Fault enumeration: every truncation offset of files written by the real fit(); plus faults
on the writing side (ENOSPC after N bytes through a proxy handle; SIGKILL of a fit() process;
one strace run showing that the output fd only sees sequential appends, which is what
justifies modelling a crash as a byte prefix).
"""
import errno
import os
import pickle
import shutil
import signal
import subprocess
import sys
import time

import numpy as np
from astropy import units as u

from .. import gen, pkg, probe
from .. import oracles as O

SHARDS = {'quick': 4, 'thorough': 16, 'quick_timeout': 900, 'thorough_timeout': 5400}


LAST_WRITTEN = []      # via_objects: the records as they were when written (canonical copies + the model names character by character)


def exact_names(arr):
    return [x_.decode() if isinstance(x_, bytes) else str(x_) for x_ in np.asarray(arr).tolist()]


def make_fit_file(ctx, rng, d, n_rec, with_fluxes, n_models=None, many=False, equal_sizes=False, via_objects=False):
    """run the real fit() on a small 2-D or 3-D package; returns (path, kwargs used).
    via_objects: the records are produced with Fitter.fit and written with FitInfoFile.write (the object interface), after the
    model names of every other record were edited by hand to carry blanks"""
    from sedfitter import fit
    n_models = n_models or int(rng.integers(2, 9))
    nb = int(rng.integers(2, 5))
    names = gen.model_names(rng, n_models)
    wav = gen.band_wavelengths(rng, nb)
    bn = ['Q%d' % i for i in range(nb)]
    mode3 = bool(rng.random() < 0.5)
    lw, lc = gen.make_law_arrays(rng, n=8, lo=0.05, hi=2000.0)
    law = gen.build_law(lw, lc)
    if mode3:
        aps = gen.aperture_table(rng, 3)
        conv = gen.conv_grid(rng, n_models, nb, n_ap=3)
        gen.write_grid_v1(d, names, bn, wav, conv, apertures=aps, aperture_dependent=True, logd_step=0.2)
        theta = np.full(nb, aps[0] * 1.5 / 1000.0)
    else:
        conv = gen.conv_grid(rng, n_models, nb)
        gen.write_grid_v1(d, names, bn, wav, conv)
        theta = np.ones(nb)
    data = os.path.join(d, 'data.txt')
    with open(data, 'w') as f:
        flux_eq, xy_eq = 10 ** rng.uniform(-1, 2, nb), (rng.uniform(0, 360), rng.uniform(-90, 90))
        for i in range(n_rec):
            valid = [1] * nb
            flux = 10 ** rng.uniform(-1, 2, nb)
            sname = 'src_%d_%s' % (i, 'x' * int(rng.integers(0, 12)))
            if i == 0:
                first_name = sname
            if i == 1 and n_rec >= 3 and not equal_sizes:
                sname = first_name          # the same object listed on two lines (other photometry): two records with one source name
            xy = (rng.uniform(0, 360), rng.uniform(-90, 90))
            if equal_sizes:
                # the same photometry listed under fixed-width names: records of exactly the same size (the size of a pickled
                # record otherwise depends on the byte values of its numbers)
                sname, flux, xy = 'src_%03d' % i, flux_eq, xy_eq
            f.write(gen.source_line(sname, valid, flux, flux * 0.1, xy[0], xy[1]) + '\n')
    out = os.path.join(d, 'fit.out')
    sel = [('N', int(rng.integers(1, n_models + 1))), ('A', 0), ('N', 1)][int(rng.integers(3))] if not many else ('N', 2)
    if n_models >= 40:
        sel = ('A', 0)          # keep every model: records of tens of kilobytes
    kw = dict(data=data, filter_names=bn, apertures=theta * u.arcsec, model_dir=d, output=out, n_data_min=1,
              extinction_law=law, av_range=(0.0, 20.0), distance_range=[1.0, 2.0] * u.kpc, output_format=sel,
              output_convolved=with_fluxes)
    del LAST_WRITTEN[:]
    if via_objects:
        from sedfitter.fit import Fitter
        from sedfitter.fit_info import FitInfoFile
        from sedfitter.source import Source
        ft = Fitter(bn, theta * u.arcsec, d, extinction_law=law, av_range=(0.0, 20.0), distance_range=[1.0, 2.0] * u.kpc)
        fo = FitInfoFile(out, 'w')
        src_ = Source()          # ONE source object, re-filled for every line (a loop that re-uses its work object)
        for i, line in enumerate(open(data).read().splitlines()):
            fresh_ = Source.from_ascii(line)
            src_.valid, src_.flux, src_.error = None, None, None
            src_.name, src_.x, src_.y = fresh_.name, fresh_.x, fresh_.y
            src_.valid, src_.flux, src_.error = fresh_.valid, fresh_.flux, fresh_.error
            info = ft.fit(src_)
            info.keep(sel)
            if not with_fluxes:
                info.model_fluxes = None
            if i % 2 == 0:
                padded = np.array([('  ' if j_ % 2 else '') + str(x_).strip() + '   ' for j_, x_ in enumerate(info.model_name)])
                info.model_name = padded.astype(info.model_name.dtype.kind + str(max(len(x_) for x_ in padded)))
            fo.write(info)
            LAST_WRITTEN.append((probe.canon_info(info), exact_names(info.model_name)))
        fo.close()
        return out, kw
    fit(**{k: v for k, v in kw.items() if k != 'data'}, data=data)
    return out, kw



import builtins as _builtins
import io as _io
_REAL_OPEN = _builtins.open


def _install_open(shim):
    """the writer may reach its file through the builtin open, io.open or a module-level name: all of them get the shim"""
    import sedfitter.fit_info as fi
    _builtins.open = shim
    _io.open = shim
    fi.open = shim


def _remove_open():
    import sedfitter.fit_info as fi
    _builtins.open = _REAL_OPEN
    _io.open = _REAL_OPEN
    if 'open' in fi.__dict__:
        del fi.open


WRITE_ENDS = []


def install(ctx):
    """post-condition probe on FitInfoFile.write: the position of the output handle after each record has been handed
    over.  This is how "the records that had been written" is *observed* at the writing boundary, without assuming
    anything about the on-disk layout (the only assumption is append-only writing, which the strace run observes)."""
    from sedfitter.fit_info import FitInfoFile

    def write_post(self, info, result):
        ctx.event('FitInfoFile.write:post')
        pos = None
        if COUNT['active'] and COUNT.get('handle') is not None:
            # the size of the output file once everything handed over so far has been flushed (the file object is the harness's
            # own: it was created by the open() shim), whichever way the writer put the bytes there (write(), ndarray.tofile, ...)
            try:
                COUNT['handle'].real.flush()
                pos = int(os.fstat(COUNT['handle'].real.fileno()).st_size)
            except Exception:
                pos = None
        if pos is None and COUNT['active'] and COUNT['bytes'] > 0:
            pos = int(COUNT['bytes'])          # bytes handed to the output file so far (public boundary: the module's open())
        elif pos is None:
            try:
                pos = int(self._handle.tell())   # fallback: the writer's own handle (private; may not exist after a refactor)
            except Exception:
                pos = None
        WRITE_ENDS.append(pos)
        return True

    probe.attach(FitInfoFile, 'write', ensure=write_post)


COUNT = {'active': False, 'bytes': 0, 'path': None, 'handle': None}


class _CountingHandle(object):
    def __init__(self, real):
        self.real = real

    def write(self, b):
        COUNT['bytes'] += len(bytes(b))
        COUNT.setdefault('marks', []).append(COUNT['bytes'])       # where each write() call ended: a natural place for a crash
        return self.real.write(b)

    def __getattr__(self, k):
        return getattr(self.real, k)

    def __enter__(self):
        return self

    def __exit__(self, *a):
        return self.real.__exit__(*a)


def observed_record_ends(fn, *a, **k):
    """run fn (which writes one fit file through the code under test) and return (result, record end offsets)"""
    import sedfitter.fit_info as fi
    del WRITE_ENDS[:]
    COUNT.update(active=True, bytes=0)

    def counting_open(file, mode='r', *aa, **kk):
        p = file
        f = _REAL_OPEN(file, mode, *aa, **kk)
        if ('w' in mode or 'a' in mode or '+' in mode) and str(p).endswith('fit.out'):
            COUNT['bytes'] = 0
            COUNT['marks'] = []
            COUNT['handle'] = _CountingHandle(f)
            return COUNT['handle']
        return f

    _install_open(counting_open)
    try:
        res = fn(*a, **k)
    finally:
        _remove_open()
        COUNT['active'] = False
        COUNT['handle'] = None
    ends = list(WRITE_ENDS)
    del WRITE_ENDS[:]
    return res, ends


def record_offsets(path):
    """end offsets of the three metadata pickles and of every record (plain pickle, not the code under test)"""
    ends = []
    with open(path, 'rb') as f:
        while True:
            try:
                pickle.load(f)
            except EOFError:
                break
            ends.append(f.tell())
    return ends[2], ends[3:]      # end of metadata, record ends


def read_all(path):
    from sedfitter.fit_info import FitInfoFile
    fin = FitInfoFile(path, 'r')
    recs = [probe.canon_info(x) for x in fin]
    fin.close()
    return recs


def read_truncated(path):
    """-> (records yielded, exception or None)"""
    from sedfitter.fit_info import FitInfoFile
    got = []
    fin = None
    try:
        fin = FitInfoFile(path, 'r')
        for info in fin:
            got.append(probe.canon_info(info))
    except BaseException as exc:
        if isinstance(exc, (KeyboardInterrupt, SystemExit)):
            raise
        return got, exc
    finally:
        try:
            if fin is not None:
                fin.close()
        except Exception:
            pass
    return got, None


def judge(ctx, got, exc, full, n_complete, wit, keyp, names=None):
    """yielded records must be records 0..k-1 bit-identically, k <= complete records (names: the written model names, compared
    character by character when the records were written through the object interface)"""
    if names is not None:
        for i, g in enumerate(got[:len(names)]):
            if exact_names(g['model_name']) != names[i]:
                ctx.violation(keyp + ':altered-record:model-names', 'a yielded record carries other model names than the written one (character by character)',
                              dict(wit, record=i, written=names[i][:3], read=exact_names(g['model_name'])[:3]))
                return False
    if len(got) > n_complete:
        ctx.violation(keyp + ':invented-record', 'more records yielded than had been completely written',
                      dict(wit, yielded=len(got), complete=n_complete))
        return False
    for i, g in enumerate(got):
        diffs = probe.same_canon(full[i], g)
        if diffs:
            ctx.violation(keyp + ':altered-record', 'a yielded record differs from the written one: %s' % diffs, dict(wit, record=i))
            return False
    return True


def run(ctx):
    rng = ctx.rng
    install(ctx)
    try:          # a reader that takes a length from a damaged file may ask for gigabytes: let that fail as MemoryError instead of
        import resource      # having the shard killed by the kernel (an error is an accepted outcome of reading a cut file)
        soft, hard = resource.getrlimit(resource.RLIMIT_AS)
        resource.setrlimit(resource.RLIMIT_AS, (12 << 30, hard))
    except Exception:
        pass
    ctx.rule = ('files written by the real fit() holding 1..4 records of varying size, with and without stored predicted fluxes; every truncation offset '
                '0..len-1 (exhaustive, partitioned over shards); writer-side faults: ENOSPC after N bytes (N over a stride), SIGKILL at random times, one '
                'strace of the output fd. a case = one truncated read; non-trivial = offset beyond the metadata')
    ctx.exhaustive = True
    ctx.extra['exhaustive_subspace'] = 'truncation offsets 0..len-1 of every generated file'
    ctx.assume('a crash leaves a byte prefix of the file' + (' (supported by the strace observation of the thorough tier: only sequential write()s on the output fd, no seek/truncate/rename)' if not ctx.quick else ' (append-only writing is observed by the strace run of the thorough tier, not in this tier)'),
               'the end offset of every record is observed at the writing boundary (position of the output handle after each FitInfoFile.write), so nothing is assumed about the on-disk layout', 'a clean end after fewer records than were complete is an exact prefix and is accepted')
    ctx.require_events('truncated-read:after-another-file-of-the-same-length-under-the-same-name', 'truncated-read', 'outcome:exception', 'outcome:clean-end', 'enospc-run', 'enospc:prefix-on-disk', 'FitInfoFile.write:post')
    ctx.require_regimes('records:written-through-the-object-interface', 'with-fluxes', 'without-fluxes', 'records=1', 'records>=3', 'cut:before-first-record-complete', 'cut:in-later-record', 'cut:on-boundary',
                        'records:large', 'records:thousands-of-fits', 'records:equal-size', 'enospc:over-an-existing-longer-file', 'enospc:over-another-longer-file', 'enospc:over-an-earlier-run-of-the-same-job')
    n_files = 8 if ctx.quick else 64
    prev_blob = None
    prev_pack = None
    for ifile in range(n_files):
        n_rec = [1, 3, 2, 4][ifile % 4]
        with_fluxes = bool((ifile // 4) % 2)          # every record count with and without stored fluxes
        d = ctx.newdir('c19')
        frng = np.random.default_rng([ctx.seed, 19, ifile])         # same files in every shard: offsets are partitioned
        # record sizes from a few hundred bytes to tens of kilobytes (number of models kept per source)
        big = ifile % 8 in (5, 6)
        nmod = int(frng.choice([40, 150, 400])) if big else None
        if ifile % 8 == 6:
            nmod = int(frng.integers(5200, 6500))          # thousands of fits per record (a whole grid kept: ('A', 0))
            ctx.regime('records:thousands-of-fits')
        if big:
            ctx.regime('records:large')
        try:
            eq = ifile % 8 in (2, 3, 7)
            via_obj = ifile % 8 == 1          # records written through the object interface, some with hand-edited model names
            (path, kw), rec_ends = observed_record_ends(make_fit_file, ctx, frng, d, n_rec, with_fluxes, n_models=nmod, many=False, equal_sizes=eq, via_objects=via_obj)
            written_names = [x_[1] for x_ in LAST_WRITTEN] if via_obj else None
            written_full = [x_[0] for x_ in LAST_WRITTEN] if via_obj else None
        except Exception as exc:
            ctx.raised(exc, 'fit-raised', 'fit() raised while producing the file: %r' % (exc,), {'n_rec': n_rec})
            continue
        write_marks = [m_ for m_ in COUNT.get('marks', []) if m_ is not None][:2000]
        full = read_all(path)
        size = os.path.getsize(path)
        if via_obj:
            # the reference is what was handed to the writer, not what the reader returns for the complete file
            ctx.regime('records:written-through-the-object-interface')
            if len(full) == len(written_full):
                judge(ctx, full, None, written_full, len(written_full), {'file': ifile, 'offset': 'complete file'}, 'complete-file', names=written_names)
                full = written_full
        if len(full) != n_rec:
            ctx.violation('complete-file:records', 'the complete file does not read back one record per source', {'n_rec': n_rec, 'read': len(full)})
            continue
        if len(rec_ends) == n_rec and n_rec >= 3 and all(e is not None for e in rec_ends) and len(set(np.diff(rec_ends))) == 1:
            ctx.regime('records:equal-size')
        if len(rec_ends) != n_rec or any(e is None for e in rec_ends) or rec_ends != sorted(rec_ends) or rec_ends[-1] != size:
            ctx.inconclusive('write-side observation failed: record ends %r for %d records, file size %d' % (rec_ends, n_rec, size))
            continue
        meta_end = 0          # (the metadata is written together with the first record: no layout knowledge is used)
        ctx.regime('with-fluxes' if with_fluxes else 'without-fluxes')
        ctx.regime('records=1' if n_rec == 1 else ('records>=3' if n_rec >= 3 else 'records=2'))
        work = os.path.join(d, 'trunc.out')
        shutil.copyfile(path, work)
        wit0 = {'file': ifile, 'n_records': n_rec, 'with_fluxes': with_fluxes, 'size': size, 'record_ends': rec_ends}
        # every offset for files up to 20 kB; beyond that every offset within 96 bytes of a record end or of the start, and a stride elsewhere
        if size <= 20000:
            offsets = range(size - 1, -1, -1)
        else:
            near = set()
            for e in [0] + rec_ends:
                near.update(range(max(0, e - 96), min(size, e + 96)))
            for e in write_marks:              # ... and around every place where a write() call of the writer ended
                near.update(range(max(0, e - 2), min(size, e + 3)))
            near.update(range(0, size, max(1, size // 4000)))
            offsets = sorted(near, reverse=True)
            ctx.extra['exhaustive_subspace'] = 'truncation offsets 0..len-1 of every generated file up to 20 kB; larger files: all offsets within 96 bytes of a record end, within 2 bytes of the end of every write() call of the writer, + a stride'
        cur_blob = open(path, 'rb').read()
        twin_at = set()
        if prev_pack is not None:
            for e in list(prev_pack[2]) + list(rec_ends):
                twin_at.update((e - 1, e, e + 1))
            twin_at.update(range(0, size, 53))
            twin_at = set(t_ for t_ in twin_at if 0 <= t_ < min(size, len(prev_pack[0])))
        for t in offsets:
            os.truncate(work, t)
            if not ctx.mine(t):
                continue
            if t in twin_at:
                # the same name held, a moment ago, another results file cut to the very same length (an earlier run that died at
                # the same point): each is read right after the other, and each read must answer for the file that is there
                pb, pfull, pends = prev_pack
                with open(work, 'wb') as fo_:
                    fo_.write(pb[:t])
                gp, ep = read_truncated(work)
                judge(ctx, gp, ep, pfull, sum(1 for e in pends if e <= t),
                      dict(wit0, offset=t, twin='the previous file, cut to the same length, under the same name'), 'truncated:same-name-earlier-file')
                with open(work, 'wb') as fo_:
                    fo_.write(cur_blob[:t])
                ctx.event('truncated-read:after-another-file-of-the-same-length-under-the-same-name')
            n_complete = sum(1 for e in rec_ends if e <= t)
            got, exc = read_truncated(work)
            ctx.event('truncated-read')
            ctx.event('outcome:exception' if exc is not None else 'outcome:clean-end')
            ctx.regime('cut:before-first-record-complete' if t < rec_ends[0] else ('cut:on-boundary' if t in rec_ends else 'cut:in-later-record'))
            wit = dict(wit0, offset=t, exception=repr(exc)[:120])
            judge(ctx, got, exc, full, n_complete, wit, 'truncated', names=written_names)
            ctx.case((ifile, t), nontrivial=t >= rec_ends[0] // 2,
                     sample=dict(wit, yielded=len(got), complete=n_complete) if (t == rec_ends[0] + 7 and len(ctx.samples) < 2) else None)

        if via_obj:
            # (the writer-side fault runs below repeat the fit() call: not applicable to records written by hand)
            prev_blob = open(path, 'rb').read()
            prev_pack = (prev_blob, full, list(rec_ends))
            continue
        # ---- ENOSPC after N bytes on the writing side -----------------------------------
        import sedfitter.fit_info as fi
        stride = max(1, size // (12 if ctx.quick else 60))
        fin_ = fi.FitInfoFile(path, 'r')
        infos_full = list(fin_)
        fin_.close()
        ref_pad = b'\0' * size
        n_points = 12 if ctx.quick else 60
        for kpt in range(n_points + 1):
            if not ctx.mine(kpt + ifile):
                continue
            N = min(size - 1, kpt * stride + int(frng.integers(0, max(1, stride))))
            out2 = os.path.join(d, 'enospc_%d.out' % N)

            seen = {'proxies': 0, 'writes': 0}
            # every third run: the output name already holds an older, longer result file and the records are written
            # through the writer class directly (fit() itself asks before deleting an existing output)
            stale = prev_blob is not None and kpt % 3 == 1
            if stale:
                if (kpt // 3) % 2:
                    with open(out2, 'wb') as fo_:
                        fo_.write(prev_blob + prev_blob + ref_pad)
                    ctx.regime('enospc:over-another-longer-file')
                else:
                    # ... an earlier run of the same job with other numbers: records of the same size at the same places
                    fo_ = fi.FitInfoFile(out2, 'w')
                    for inf_ in infos_full + infos_full[-1:]:
                        old_ = inf_.copy()
                        old_.chi2 = np.asarray(inf_.chi2) + 1.0
                        old_.av = np.asarray(inf_.av) * 0.5
                        fo_.write(old_)
                    fo_.close()
                    ctx.regime('enospc:over-an-earlier-run-of-the-same-job')
                ctx.regime('enospc:over-an-existing-longer-file')

            class Proxy(object):
                def __init__(self, real):
                    self.real, self.left = real, N
                    seen['proxies'] += 1

                def write(self, b):
                    b = bytes(b)
                    seen['writes'] += 1
                    if len(b) > self.left:
                        seen['failed'] = True
                        COUNT['bytes'] += self.left
                        self.real.write(b[:self.left])
                        self.left = 0
                        self.real.flush()
                        raise OSError(errno.ENOSPC, 'No space left on device (injected)')
                    self.left -= len(b)
                    COUNT['bytes'] += len(b)
                    return self.real.write(b)

                def __getattr__(self, k):
                    return getattr(self.real, k)

            def failing_open(file, mode='r', *a, **k):
                p = file
                f = _REAL_OPEN(file, mode, *a, **k)
                return Proxy(f) if (('w' in mode or 'a' in mode or '+' in mode) and isinstance(p, (str, os.PathLike)) and os.path.abspath(p) == os.path.abspath(out2)) else f

            _install_open(failing_open)
            from sedfitter import fit
            try:
                kw2 = dict(kw, output=out2)
                try:
                    if stale:
                        del WRITE_ENDS[:]
                        COUNT.update(active=True, bytes=0)
                        fo_ = fi.FitInfoFile(out2, 'w')
                        for inf_ in infos_full:
                            fo_.write(inf_)
                        fo_.close()
                    else:
                        fit(**kw2)
                    raised = False
                except Exception:          # any error reported to the caller counts
                    raised = True
            finally:
                _remove_open()
                COUNT['active'] = False
            if stale and any(e is None for e in WRITE_ENDS):
                ctx.inconclusive('write-side observation failed in the overwrite run (no record end positions)')
                del WRITE_ENDS[:]
                if os.path.exists(out2):
                    os.remove(out2)
                continue
            ends_here = list(WRITE_ENDS) if stale else rec_ends
            del WRITE_ENDS[:]
            ctx.event('enospc-run')
            import gc
            gc.collect()
            if seen['writes'] == 0:
                # the fault was never injected (the writer does not go through sedfitter.fit_info.open / .write): nothing observed
                ctx.inconclusive('ENOSPC proxy saw no write on the output (%d proxies created): the writer is not reached through sedfitter.fit_info.open' % seen['proxies'])
                if os.path.exists(out2):
                    os.remove(out2)
                continue
            if not seen.get('failed'):
                ctx.event('enospc:fault-not-reached')         # fewer bytes were written than the injection point
                if os.path.exists(out2):
                    os.remove(out2)
                continue
            if not raised:
                ctx.violation('enospc:swallowed', 'a full disk while writing was not reported as an error', dict(wit0, N=N))
            blob = open(out2, 'rb').read() if os.path.exists(out2) else b''
            ref = open(path, 'rb').read()
            if blob == ref[:len(blob)] and len(blob) <= N:
                ctx.event('enospc:prefix-on-disk')
                n_complete = sum(1 for e in ends_here if e <= len(blob))
            elif stale and len(blob) <= N:
                n_complete = sum(1 for e in ends_here if e <= len(blob))
            else:
                # not a byte prefix (not required by the statement): only "an exact prefix of the records, or an error" is judged
                ctx.event('enospc:not-a-byte-prefix')
                n_complete = n_rec
            got, exc = read_truncated(out2) if os.path.exists(out2) else ([], None)
            judge(ctx, got, exc, full, n_complete, dict(wit0, N=N, on_disk=len(blob), over_existing_file=stale, exception=repr(exc)[:120]),
                  'enospc' if not stale else 'enospc-over-existing')
            ctx.case(('enospc', ifile, kpt, N), nontrivial=len(blob) > rec_ends[0] // 2)
            if os.path.exists(out2):
                os.remove(out2)
        prev_blob = open(path, 'rb').read()
        prev_pack = (prev_blob, full, list(rec_ends))
        ctx.rmdir(d)

    if not ctx.quick:
        ctx.require_events('sigkill-run', 'strace-run')
        if ctx.shard < 4:
            sigkill_runs(ctx, rng)
        if ctx.shard == min(4, ctx.nshards - 1):
            strace_run(ctx, rng)


CHILD = r'''
import sys, os, pickle
sys.path.insert(0, os.environ.get('VERIF_REPO', '/repo'))
import warnings; warnings.simplefilter('ignore')
from sedfitter import fit
kw = pickle.load(open(sys.argv[1], 'rb'))
sys.stdout = open(os.devnull, 'w')
fit(**kw)
'''


def big_job(ctx, rng, d, n_src):
    """a fit() job with many sources, to be run in a child process"""
    (out, kw), ends = observed_record_ends(make_fit_file, ctx, rng, d, n_src, True, n_models=6, many=True)
    ref = read_all(out)
    kwp = os.path.join(d, 'kw.pkl')
    out2 = os.path.join(d, 'child.out')
    kw2 = dict(kw, output=out2)
    with open(kwp, 'wb') as f:
        pickle.dump(kw2, f)
    return kwp, out2, ref, out, ends


def sigkill_runs(ctx, rng):
    for it in range(6):
        d = ctx.newdir('kill')
        kwp, out2, ref, out, rec_ends = big_job(ctx, rng, d, 400)
        env = dict(os.environ, PYTHONPATH='')
        p = subprocess.Popen([sys.executable, '-B', '-c', CHILD, kwp], stdin=subprocess.DEVNULL,
                             stdout=subprocess.DEVNULL, stderr=subprocess.DEVNULL, env=env, cwd=d)
        # wait until the output exists and has grown a little, then kill at a random moment
        t0 = time.time()
        while time.time() - t0 < 60 and not (os.path.exists(out2) and os.path.getsize(out2) > 0) and p.poll() is None:
            time.sleep(0.002)
        time.sleep(float(rng.uniform(0, 0.15)))
        killed = p.poll() is None
        if killed:
            p.send_signal(signal.SIGKILL)
        p.wait()
        ctx.event('sigkill-run' if killed else 'sigkill-run:finished-before-kill')
        if not os.path.exists(out2):
            continue
        blob = open(out2, 'rb').read()
        refb = open(out, 'rb').read()
        if blob != refb[:len(blob)]:
            ctx.violation('sigkill:not-a-prefix', 'bytes on disk after SIGKILL are not a prefix of the complete file', {'on_disk': len(blob)})
            continue
        n_complete = sum(1 for e in rec_ends if e <= len(blob))
        got, exc = read_truncated(out2)
        judge(ctx, got, exc, ref, n_complete, {'on_disk': len(blob), 'killed': killed, 'exception': repr(exc)[:120]}, 'sigkill')
        ctx.case(('sigkill', it, ctx.shard, len(blob)), nontrivial=True)
        ctx.rmdir(d)


def strace_run(ctx, rng):
    d = ctx.newdir('strace')
    kwp, out2, ref, out, _ends = big_job(ctx, rng, d, 40)
    log = os.path.join(d, 'strace.log')
    env = dict(os.environ, PYTHONPATH='')
    try:
        subprocess.run(['strace', '-f', '-y', '-e', 'trace=openat,write,lseek,pwrite64,ftruncate,truncate,rename,renameat,renameat2,unlink',
                        '-o', log, sys.executable, '-B', '-c', CHILD, kwp], stdin=subprocess.DEVNULL, stdout=subprocess.DEVNULL,
                       stderr=subprocess.DEVNULL, env=env, cwd=d, timeout=600)
    except Exception as exc:
        ctx.inconclusive('strace run failed: %r' % (exc,))
        return
    nwrites = 0
    total = 0
    bad = []
    import re
    unparsed = 0
    pending = {}          # pid -> call left unfinished on the output file
    for line in open(log, errors='replace'):
        m_res = re.match(r'^(\d+)\s+<\.\.\. (\w+) resumed>', line)
        if m_res and pending.get(m_res.group(1)) == m_res.group(2) == 'write':
            pending.pop(m_res.group(1))
            try:
                total += int(line.rsplit('=', 1)[1].strip().split()[0])
            except Exception:
                unparsed += 1
            continue
        if 'child.out' not in line:
            continue
        m_call = re.match(r'^(?:(\d+)\s+)?(\w+)\(', line)
        if not m_call:
            unparsed += 1
            continue
        call = m_call.group(2)
        if call == 'write':
            nwrites += 1
            if '<unfinished' in line:
                pending[m_call.group(1)] = 'write'
                continue
            try:
                total += int(line.rsplit('=', 1)[1].strip().split()[0])
            except Exception:
                unparsed += 1
        elif call == 'openat':
            if 'O_APPEND' in line or ('O_WRONLY' in line and 'O_TRUNC' not in line):
                pass
        elif call == 'lseek':
            # a seek that does not move the position (SEEK_CUR, 0) is harmless
            if 'SEEK_CUR' in line and ', 0,' in line:
                continue
            bad.append(line.strip()[:160])
        else:
            bad.append(line.strip()[:160])
    ctx.event('strace-run')
    ctx.extra['strace_writes_on_output_fd'] = nwrites
    ctx.extra['strace_bytes_written'] = total
    if bad:
        ctx.violation('strace:non-append-operation', 'the output file saw an operation other than sequential write()', {'calls': bad[:10]})
    if nwrites == 0 or unparsed or pending:
        ctx.inconclusive('strace log not fully understood (%d writes on the output, %d unparsed lines, %d unfinished calls)' % (nwrites, unparsed, len(pending)))
    elif total != os.path.getsize(out2):
        ctx.violation('strace:bytes', 'bytes written by write() calls do not add up to the file', {'written': total, 'size': os.path.getsize(out2)})
    ctx.case(('strace', nwrites), nontrivial=True)
    ctx.rmdir(d)


def replay(ctx, rec):
    ctx.inconclusive('replay: re-run ./check C19 with VERIF_SEED=%s (files are generated from the seed; offsets are in the witness)' % rec.get('seed'))
