"""C01 — best-fit A_V and scale are the constrained least-squares optimum (2-D packages).

Monitor: post-condition on Fitter.fit; oracle fitcheck.check_fit2d against package truth.
"""
import os

import numpy as np
from astropy import units as u

from .. import gen, pkg, probe, fitcheck
from .. import oracles as O

SHARDS = {'quick': 4, 'thorough': 16, 'quick_timeout': 900, 'thorough_timeout': 3600}

REG = {}      # id(fitter) -> (GridTruth, current literal photometry)
SHARED_LAW = []
CUR = {}
PREV = []
PREV_DIR = []


def install(ctx):
    from sedfitter.fit import Fitter

    def fit_post(self, source, result):
        ctx.event('Fitter.fit:post')
        tr = REG.get(id(self))
        if tr is not None and CUR.get('phot') is not None:
            valid, flux, error = CUR['phot']
            CUR['summary'] = fitcheck.check_fit2d(ctx, tr, valid, flux, error, result, CUR['wit'])
        return True

    probe.attach(Fitter, 'fit', ensure=fit_post)


def make_package(ctx, rng, d, n_models=None):
    """random non-aperture-dependent package; returns dict describing it"""
    big = n_models is not None
    n_models = int(rng.choice([1, 2, 5, 12, 40, 150], p=[0.15, 0.2, 0.25, 0.2, 0.15, 0.05])) if n_models is None else int(n_models)
    n_bands = int(rng.integers(2, 9))
    names = gen.model_names(rng, n_models, 'lex' if big else None)
    wav = gen.band_wavelengths(rng, n_bands)
    # ('v1multi' - multi-aperture files in a package declared aperture-independent - is self-contradictory and outside the statement:
    #  it is no longer generated)
    style = str(rng.choice(['v1', 'v1', 'v2name', 'v2wav']))
    fmt = str(rng.choice(['D', 'E']))
    grid = gen.conv_grid(rng, n_models, n_bands, decades=float(rng.choice([1.0, 3.0, 20.0])))
    if fmt == 'E':
        grid = pkg.r32(grid)
        wav = pkg.r32(wav)     # FILTWAV is a header float: exact either way
    bnames = ['B%d' % i for i in range(n_bands)]
    info = dict(style=style, fmt=fmt, n_models=n_models, n_bands=n_bands)
    if style == 'v1':
        order = list(rng.permutation(n_models))
        funit = str(rng.choice(['mJy', 'mJy', 'Jy', 'uJy'])) if fmt == 'D' else 'mJy'      # the package may tabulate fluxes in another unit
        info['flux_unit'] = funit
        gen.write_grid_v1(d, names, bnames, wav, grid, fmt=fmt, table_order=order, flux_unit=funit)
        filt = bnames
        truth_grid = grid[:, 0, :]
    elif style == 'v1multi':          # multi-aperture files in a non-aperture-dependent package: column 0 is used
        n_ap = int(rng.integers(2, 5))
        g = gen.conv_grid(rng, n_models, n_bands, n_ap=n_ap)
        if fmt == 'E':
            g = pkg.r32(g)
        funit = str(rng.choice(['mJy', 'Jy'])) if fmt == 'D' else 'mJy'
        info['flux_unit'] = funit
        gen.write_grid_v1(d, names, bnames, wav, g, apertures=gen.aperture_table(rng, n_ap), fmt=fmt, flux_unit=funit)
        filt = bnames
        truth_grid = g[:, 0, :]
    elif style == 'v2name':
        gen.write_grid_v2(d, names, bnames, wav, grid, fmt=fmt)
        filt = bnames
        truth_grid = grid[:, 0, :]
    else:                              # wavelengths given instead of filter names
        extra = gen.loguniform(rng, 0.3, 500.0, int(rng.integers(0, 4)))
        cw = np.unique(np.concatenate([wav, extra]))
        # keep the requested wavelengths the unique nearest tabulated ones
        cube = gen.conv_grid(rng, n_models, len(cw))
        for f, wv in enumerate(wav):
            cube[:, 0, np.where(cw == wv)[0][0]] = grid[:, 0, f]
        cdt = str(rng.choice(['f8', 'f4']))
        if cdt == 'f4':
            cube = pkg.r32(cube)
        desc = bool(rng.random() < 0.5)
        gen.write_grid_v2(d, names, [None] * n_bands, wav, grid, cube_wav=cw, cube=cube,
                          cube_unc=cube * 0.05, cube_desc=desc, cube_dtype=cdt)
        filt = [w * u.micron for w in wav]
        truth_grid = np.stack([cube[:, 0, np.where(cw == wv)[0][0]] for wv in wav], axis=1)
        info.update(cube_desc=desc, cube_dtype=cdt)
    return names, wav, filt, truth_grid, info


def run(ctx):
    rng = ctx.rng
    install(ctx)
    ctx.rule = ('random 2-D packages (v1 own convolved files incl. multi-aperture, v2 named filters, v2 wavelength '
                '"filters"; float32/float64; memmap on/off) x extinction laws x sources with every flag x A_V ranges; '
                'a case = one Fitter.fit call; non-trivial = >=2 fitted points with unequal k and >=1 model; '
                'distinct = hash of (package id, photometry, range)')
    ctx.assume('oracle: longdouble normal equations from package truth and an independent extinction interpolation',
               'regression condition number >= 1e-8 (non-singular per the quantifier)',
               'float32 memmap fitters are compared with a bound of 3e-7*(1+max|log10 F|) dex on model log-fluxes',
               'limits within 1e-9 dex (1e-6 memmap) of the prediction: either outcome accepted',
               'flag-9 slots carry positive finite values here (hostile values in ignored slots are C03)')
    ctx.require_events('Fitter.fit:post', 'interleave:previous-package', 'law-object:table-reassigned')
    ctx.require_regimes('limit:confidence=1', 'av_interior', 'av_clamped_lo', 'av_clamped_hi', 'lo_eq_hi', 'limit_violated',
                        'limit_satisfied', 'k0_band', 'style:v1', 'style:v2name', 'style:v2wav',
                        'memmap_on', 'memmap_off', 'source:integer-containers', 'grid:thousands-of-models', 'conf:flag-not-lower-case-no')
    n_pkg = 8 if ctx.quick else 150
    n_src = 30 if ctx.quick else 60
    for ip in range(n_pkg):
        d = ctx.newdir('p')
        # "any grid of models": one package per run is a grid of thousands of models (real grids have 10^4..10^5), of a size that is
        # not a multiple of any power of two up to 8192; the thorough tier adds one above 65536
        nbig = None
        if ip == 2 and ctx.shard == 0:
            nbig = 9001
        elif not ctx.quick and ip == 5 and ctx.shard == 1:
            nbig = 70001
        pkg.YESNO = ip          # how models.conf spells its flags: no / No / NO / n / N (the reader takes any case)
        if ip % 5:
            ctx.regime('conf:flag-not-lower-case-no')
        names, wav, filt, tgrid, pinfo = make_package(ctx, rng, d, n_models=nbig)
        pkg.YESNO = 0
        if nbig:
            ctx.regime('grid:thousands-of-models')
        # law: sometimes leave some bands outside (k = 0)
        hi_w = float(rng.choice([2000.0, np.sort(wav)[-1] * 0.7 if np.sort(wav)[-1] * 0.7 > 0.6 else 2000.0]))
        lw, lc = gen.make_law_arrays(rng, hi=hi_w)
        # avoid bands exactly on the table ends (boundary is inclusive in code, statement says outside => 0)
        if np.any(np.isclose(wav, lw[0])) or np.any(np.isclose(wav, lw[-1])):
            ctx.rmdir(d)
            continue
        if ip % 2 == 1:
            # one extinction-law object re-used from package to package with its table re-assigned (it has already been
            # evaluated by the fitters of an earlier package): the new fitters must see the new table
            if not SHARED_LAW:
                SHARED_LAW.append(gen.build_law(lw, lc))
                SHARED_LAW[0].get_av(np.array([0.55, 1.0]) * u.micron)
            else:
                SHARED_LAW[0].chi = None          # (a table of another length: the opacities go first)
                SHARED_LAW[0].wav = np.asarray(lw, float) * u.micron
                SHARED_LAW[0].chi = np.asarray(lc, float) * u.cm ** 2 / u.g
                ctx.event('law-object:table-reassigned')
            law = SHARED_LAW[0]
        else:
            law = gen.build_law(lw, lc, wav_unit=[None, u.nm, u.AA, u.cm][(ip // 2) % 4])          # the law's wavelengths may be tabulated in any length unit
        k = O.ext_pattern(lw, lc, wav)
        if np.ptp(k) < 1e-3:
            ctx.rmdir(d)
            continue
        memmap = bool(rng.random() < 0.5)
        is_v2 = pinfo['style'].startswith('v2')
        ctx.regime('style:' + pinfo['style'])
        if is_v2:
            ctx.regime('memmap_on' if memmap else 'memmap_off')
        if np.any(k == 0):
            ctx.regime('k0_band')
        logm = np.log10(tgrid)
        # float32 memmap: fluxes rounded to float32 and log10 evaluated in float32
        nb = len(wav)
        # the A_V range is a constructor argument of the Fitter (the docs say it cannot be changed afterwards), so one
        # Fitter is built per range; all of them stay alive and are used alternately, source after source
        ac = 10.0
        r_ = float(rng.random())
        ranges = [(-1e3, 1e3), (ac + 2 + r_, ac + 40.0), (ac - 40.0, ac - 2 - r_), (ac - 0.3 * r_, ac + 0.3 * r_),
                  (round(ac + float(rng.normal(0, 3)), 2),) * 2, (-30.0, -1.0 - r_), (0, 40), (0.0, np.inf),
                  (-7.5 - r_, 0), (0, 0), (0.0, 3.0 + r_)]          # (bounds that are exactly zero: "no extinction", "no negative extinction")
        fitters = []
        try:
            for (lo, hi) in list(ranges):
                try:
                    fitters.append(gen.make_fitter(filt, np.ones(nb), d, law, (lo, hi), use_memmap=memmap))
                except Exception:
                    if not np.isfinite(hi):          # "any A_V range" need not include an infinite bound: a refusal is recorded only
                        ranges.remove((lo, hi))
                        ctx.event('range-with-infinite-bound-refused')
                    else:
                        raise
            # single-precision storage is observed on the fitter (which formats/switches use it is an implementation choice)
            delta = 3e-7 * (1 + float(np.max(np.abs(logm)))) if ((memmap and is_v2) or any(fitcheck.holds_float32(f_) for f_ in fitters)) else 0.0
        except Exception as exc:
            ctx.raised(exc, 'fit2d:fitter-construction-failed',
                          'Fitter() raised on a well-formed package: %r' % (exc,), dict(pinfo, wav=wav))
            ctx.rmdir(d)
            continue

        def one_fit(fitter, lo, hi, names_, logm_, k_, delta_, src, phot, wit, key):
            tr = fitcheck.GridTruth(names_, logm_, k_, lo, hi, delta=delta_, tag=wit.get('style', ''))
            REG.clear()
            REG[id(fitter)] = tr
            CUR.update(phot=phot, wit=wit, summary=None)
            try:
                fitter.fit(src)
            except Exception as exc:
                ctx.raised(exc, 'fit2d:fit-raised', 'Fitter.fit raised inside the quantifier: %r' % (exc,), wit)
                return None
            sm = CUR.get('summary')
            ctx.case(key, nontrivial=sm is not None,
                     sample=dict(style=wit.get('style'), valid=phot[0], flux=phot[1], error=phot[2], av_range=(lo, hi), n_models=len(names_)))
            if sm:
                ctx.event('rows_checked', sm['rows'])
                for kk, rg in (('interior', 'av_interior'), ('clamped_lo', 'av_clamped_lo'), ('clamped_hi', 'av_clamped_hi'),
                               ('limit_violated', 'limit_violated'), ('limit_satisfied', 'limit_satisfied')):
                    if sm[kk]:
                        ctx.regime(rg, sm[kk])
                if lo == hi:
                    ctx.regime('lo_eq_hi')
            return sm

        # a fitter of the previous package is still alive: using it now (after the new package was read) must still be right
        if PREV:
            pf, plo, phi, pn, plm, pk, pdl, psrc, pphot, pwit = PREV[0]
            one_fit(pf, plo, phi, pn, plm, pk, pdl, psrc, pphot, dict(pwit, interleaved='previous package fitted after the next one was read'),
                    ('prev', ip, ctx.shard))
            ctx.event('interleave:previous-package')
        last = None
        for isrc in range(n_src):
            # plant near a model so that regimes (limits violated/satisfied, clamping) are all reachable
            m0 = int(rng.integers(len(names)))
            a0 = float(rng.uniform(0, 20)) if rng.random() < 0.8 else float(rng.uniform(-50, 200))
            s0 = float(rng.uniform(-2, 2))
            pred = logm[m0] + a0 * k - 2 * s0
            valid = gen.flags_with_fit(rng, nb, k)
            wild = rng.random() < 0.15
            flux, err = gen.photometry_for(rng, valid, pred, wild=wild)
            # C01 quantifier: positive finite values in every used slot (confidence 0 is C03's; confidence exactly 1 is positive and
            # finite, so it belongs here: a violated limit then gives chi^2 >= 1e30, a satisfied one adds nothing); flag 9 positive too
            nine = valid == 9
            flux[nine] = 10.0 ** np.clip(pred[nine], -200, 200)
            err[nine] = flux[nine] * 0.1
            lim = (valid == 2) | (valid == 3)
            one = lim & (err >= 1.0)
            err[lim] = np.clip(err[lim], 1e-3, 1 - 1e-6)
            err[one] = 1.0
            if one.any():
                ctx.regime('limit:confidence=1')
            # every fifth source gives whole numbers in integer containers (arrays, lists, tuples of ints): positive, finite, legal
            ikind = None
            if isrc % 5 == 3:
                both = (isrc // 5) % 2 == 1
                flux, err = gen.integerise(valid, flux, err, both=both)
                ikind = (['i8', 'ilist', 'i4', 'ituple'][(isrc // 5) % 4], (['ilist', 'i8'][(isrc // 10) % 2] if both else 'list'))
            _, _, w = O.transform(valid, flux, err)
            fit = w > 0
            wk = np.sum(w[fit] * k[fit]) / np.sum(w[fit])
            cond = np.sum(w[fit] * (k[fit] - wk) ** 2) / np.sum(w[fit] * k[fit] ** 2)
            if not np.isfinite(cond) or cond < (1e-8 if ctx.quick else 1e-9):
                continue
            if ikind is None:
                src = gen.build_source('s%d_%d' % (ip, isrc), valid, flux, err)
            else:
                src = gen.build_source_as('s%d_%d' % (ip, isrc), valid, flux, err, fkind=ikind[0], ekind=ikind[1], vkind='list')
                ctx.regime('source:integer-containers')
            for ft, (lo, hi) in zip(fitters, ranges):
                wit = dict(pinfo, memmap=memmap, valid=valid, flux=flux, error=err, av_range=(lo, hi),
                           law_wav=lw, law_chi=lc, band_wav=wav, planted=(m0, a0, s0), logm=logm)
                one_fit(ft, lo, hi, names, logm, k, delta, src, (valid, flux, err), wit, (ip, isrc, lo, hi, ctx.shard))
                last = (ft, lo, hi, names, logm, k, delta, src, (valid, flux, err), wit)
        CUR.update(phot=None)
        if PREV_DIR:
            ctx.rmdir(PREV_DIR.pop())
        del PREV[:]
        if last is not None and not (SHARED_LAW and law is SHARED_LAW[0]):
            # (a fitter built from the shared law object is not carried over: that object is about to be given another table, and
            #  whether a live fitter follows later changes of the law object it was built from is not part of the statement)
            PREV.append(last)
            PREV_DIR.append(d)       # keep the package on disk while its fitter is still in use
        else:
            ctx.rmdir(d)


def replay(ctx, rec):
    ctx.inconclusive('replay: re-run ./check C01 with VERIF_SEED=%s; the witness holds the literal inputs' % rec.get('seed'))
