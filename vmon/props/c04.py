"""C04 — results are ranked by chi^2 and every row describes one model.

Post-condition monitor on Fitter.fit: INV-FI, each model exactly once, model_id/name
agree with the package rows, row coherence (chi^2 and stored predicted fluxes recomputed
from the truth fluxes of the *named* model and the row's own A_V/scale).
"""
import numpy as np
from astropy import units as u

from .. import gen, pkg, probe, fitcheck
from .. import oracles as O

SHARDS = {'quick': 4, 'thorough': 16, 'quick_timeout': 900, 'thorough_timeout': 3600}

REG = {}
CUR = {}


def install(ctx):
    from sedfitter.fit import Fitter

    def fit_post(self, source, result):
        ctx.event('Fitter.fit:post')
        tr = REG.get(id(self))
        if tr is None or CUR.get('phot') is None:
            return True
        wit = CUR['wit']
        truth, rownames, mode, resolved = tr
        bad = probe.inv_fi(result)
        for b in bad:
            ctx.violation('ranking:' + b.split('=')[0].split(' ')[0], 'INV-FI broken: ' + b, wit)
        idx, ok = fitcheck.check_structure(ctx, truth, result, 'rows')
        if not ok or bad:
            return True
        ids = np.asarray(result.model_id)
        if ids.min() < 0 or ids.max() >= len(rownames) or \
                any(rownames[int(ids[i])] != str(result.model_name[i]).strip() for i in range(len(ids))):
            ctx.violation('rows:model-id', 'model index and model name of a row do not refer to the same package row',
                          dict(wit, model_id=ids[:10], names=[str(x) for x in result.model_name[:10]], package_rows=rownames[:10]))
            return True
        prev = CUR.get('prev_result')
        if prev is not None and prev[2] is self:
            dd_ = probe.same_canon(prev[1], probe.canon_info(prev[0], with_source=False))
            if dd_:
                ctx.violation('rows:earlier-result-changed-by-later-fit', 'a result returned earlier no longer describes its models after a later fit on the same fitter: %s' % dd_, wit)
            ctx.event('earlier-result-rechecked')
        CUR['prev_result'] = (result, probe.canon_info(result, with_source=False), self)
        valid, flux, error = CUR['phot']
        if mode == '2d':
            sm = fitcheck.check_fit2d(ctx, truth, valid, flux, error, result, wit, keyp='coherence2d')
        else:
            sm = fitcheck.check_fit3d(ctx, truth, valid, flux, error, result, wit, keyp='coherence3d',
                                      check_min=not resolved)
        okmf = fitcheck.check_model_fluxes(ctx, truth, result, wit)
        CUR['summary'] = (sm, okmf, result)
        return True

    probe.attach(Fitter, 'fit', ensure=fit_post)


def run(ctx):
    rng = ctx.rng
    install(ctx)
    ctx.rule = ('random 2-D and 3-D packages (v1/v2, 1..200 models, duplicated models => exact chi^2 ties, confidence-1 limits => 1e30 '
                'rows, remove_resolved => inf rows) x sources; a case = one Fitter.fit; non-trivial = >=2 models and all row oracles evaluated')
    ctx.assume('row coherence uses the C01/C02 reference evaluated at the row\'s own (A_V, scale) with the truth fluxes of the model the row names',
               'rows with infinite chi^2: ranking and identity only (observed: remove_resolved never excludes the largest trial aperture, so it yields excluded (model, distance) pairs but no infinite rows; infinities inside chi^2 are mapped to 1e30)', 'remove_resolved only with use_memmap=False (memmap path skips the exclusion; outside every quantifier)',
               'tie order is free')
    ctx.require_events('Fitter.fit:post', 'rows_checked', 'model_fluxes_checked', 'earlier-result-rechecked')
    ctx.require_regimes('models>=9000', 'exact_ties', 'rows_1e30', 'rows_non-finite', 'single_model', 'models>=200', 'mode:2d', 'mode:3d', 'style:v1', 'style:v2', 'unit:flux-not-mJy:3d', '3d:distance-range-not-in-kpc')
    n_pkg = 16 if ctx.quick else 240
    n_src = 20 if ctx.quick else 40
    for ip in range(n_pkg):
        d = ctx.newdir('p')
        pkg.YESNO = ip          # spelling of the yes/no flags in models.conf (any case)
        mode = '2d' if ip % 2 == 0 else '3d'
        style = ['v1', 'v1', 'v2', 'v2'][ip % 4] if ip < 8 else str(rng.choice(['v1', 'v2']))
        n_models = int(rng.choice([1, 2, 6, 15, 40, 200], p=[0.1, 0.15, 0.3, 0.2, 0.15, 0.1]))
        if ip == 1:
            n_models = 200
        if ip == 3 and not ctx.quick and ctx.shard == 0:
            n_models = 1500
        if ip == 2:
            n_models = 1
        if ip == 4 and ctx.shard == 0:
            n_models = 9001          # a grid of thousands of models (not a multiple of any power of two up to 8192)
            ctx.regime('models>=9000')
        n_bands = int(rng.integers(2, 7))
        names = gen.model_names(rng, n_models, 'num' if n_models > 30 else None)
        wav = gen.band_wavelengths(rng, n_bands)
        bn = ['H%d' % i for i in range(n_bands)]
        dup = n_models >= 2 and rng.random() < 0.6
        resolved = mode == '3d' and rng.random() < 0.4
        if mode == '2d':
            conv = gen.conv_grid(rng, n_models, n_bands)
            aps = None
        else:
            n_ap = int(rng.integers(2, 6))
            aps = gen.aperture_table(rng, n_ap)
            conv = gen.conv_grid(rng, n_models, n_bands, n_ap=n_ap, cumulative=True if resolved else None)
        if resolved:
            # some models with constant surface brightness out to a random radius: they are 'resolved' in small apertures
            for m in range(n_models):
                if rng.random() < 0.5:
                    edge = int(rng.integers(1, len(aps)))
                    prof = np.minimum(aps, aps[edge]) ** 2 / aps[edge] ** 2
                    conv[m] = conv[m, -1:, :] * prof[:, None] * (1 + 1e-3 * np.arange(len(aps)))[:, None]
        if dup:
            ndup = int(rng.integers(1, max(2, n_models // 2)))
            for _ in range(ndup):
                a, b = rng.choice(n_models, 2, replace=False)
                conv[b] = conv[a]
        # models that end up with a non-finite chi^2: zero flux in one band (2-D: NaN rows) ...
        zero_models = []
        if mode == '2d' and n_models >= 3 and rng.random() < 0.4:
            zero_models = [int(x) for x in rng.choice(n_models - 1, int(rng.integers(1, 3)), replace=False)]   # never only the last ones
            for m in zero_models:
                conv[m, :, int(rng.integers(n_bands))] = 0.0
        order = list(rng.permutation(n_models)) if style == 'v1' else list(range(n_models))
        step = float(rng.choice([0.05, 0.1, 0.2]))
        if style == 'v1':
            funit = ['mJy', 'Jy', 'uJy'][(ip // 2) % 3]          # the unit the convolved files are tabulated in
            if funit != 'mJy' and mode == '3d':
                ctx.regime('unit:flux-not-mJy:3d')
            gen.write_grid_v1(d, names, bn, wav, conv, apertures=aps, aperture_dependent=(mode == '3d'),
                              logd_step=step, table_order=order, flux_unit=funit)
        else:
            gen.write_grid_v2(d, names, bn, wav, conv, apertures=aps, aperture_dependent=(mode == '3d'), logd_step=step)
        rownames = [names[i] for i in order]
        lw, lc = gen.make_law_arrays(rng)
        if np.any(np.isclose(wav, lw[0])) or np.any(np.isclose(wav, lw[-1])):
            ctx.rmdir(d)
            continue
        law = gen.build_law(lw, lc)
        k = O.ext_pattern(lw, lc, wav)
        if np.ptp(k) < 1e-2:
            ctx.rmdir(d)
            continue
        memmap = (not resolved) and bool(rng.random() < 0.5)
        if mode == '2d':
            theta = np.ones(n_bands)
            dr = (1.0, 2.0)
        else:
            dmin = float(gen.loguniform(rng, 0.1, 5.0))
            dr = (dmin, dmin * 10 ** rng.uniform(0.0, 0.8)) if rng.random() < 0.85 else (dmin, dmin)     # incl. a single trial distance
            theta = np.array([float(gen.loguniform(rng, aps[0] * 1.01, aps[-1] * 2)) for _ in range(n_bands)]) / (dmin * 1000.0)
        wit0 = dict(mode=mode, style=style, n_models=n_models, n_bands=n_bands, dup=dup, resolved=resolved, memmap=memmap,
                    theta=theta, distance_range=dr, band_wav=wav)
        pkg_range = [(-100.0, 100.0), (0, 40), (7.0, 30.0), (-20.0, 5.0)][int(rng.integers(4))]   # constructor argument of the Fitter
        try:
            # the distance range may be given in any length unit (the scale of a row is log10 of the distance in kpc whatever that unit)
            dunit = [None, u.pc, u.cm, u.Mpc][(ip // 2) % 4] if mode == '3d' else None
            if dunit is not None:
                ctx.regime('3d:distance-range-not-in-kpc')
            fitter = gen.make_fitter(bn, theta, d, law, pkg_range, dr, use_memmap=memmap, remove_resolved=resolved, distance_unit=dunit)
        except Exception as exc:
            ctx.raised(exc, 'setup:fitter', 'Fitter() raised: %r' % (exc,), wit0)
            ctx.rmdir(d)
            continue
        ctx.regime('mode:' + mode)
        if resolved and np.any(np.asarray(fitter.models.extended)):
            ctx.regime('resolved_excluded')
        # ... or exclusion at every trial distance (3-D: infinite rows).  remove_resolved itself never excludes the largest
        # trial aperture, so the public `extended` mask is set directly for a few models that are not last in grid order.
        forced_inf = []
        if mode == '3d' and not memmap and n_models >= 3 and rng.random() < 0.5 and isinstance(fitter.models.extended, np.ndarray) \
                and getattr(fitter.models.extended, 'ndim', 0) == 3:
            forced_inf = [int(x) for x in rng.choice(n_models - 1, int(rng.integers(1, 3)), replace=False)]
            fitter.models.extended[forced_inf, :, :] = True
            resolved = True
        ctx.regime('style:' + style)
        if n_models == 1:
            ctx.regime('single_model')
        if n_models >= 200:
            ctx.regime('models>=200')
        is_v2 = style == 'v2'
        if mode == '2d':
            with np.errstate(divide='ignore'):
                logm = np.log10(conv[:, 0, :])
            logd = None
        else:
            dist = np.asarray(fitter.models.distances.to(u.kpc).value, float)
            logm = fitcheck.grid_logm(conv, aps, theta, dist)
            logd = np.log10(dist)
        delta = 3e-7 * (1 + float(np.max(np.abs(np.asarray(logm, float))))) if ((memmap and is_v2) or fitcheck.holds_float32(fitter)) else 0.0
        for isrc in range(n_src):
            m0 = int(rng.choice([m for m in range(n_models) if m not in zero_models]))
            a0 = float(rng.uniform(0, 12))
            if mode == '2d':
                pred = logm[m0] + a0 * k - 2 * float(rng.uniform(-1, 1))
                valid = gen.flags_with_fit(rng, n_bands, k)
            else:
                pred = np.asarray(logm[m0, int(rng.integers(len(logd)))], float) + a0 * k
                valid = gen.flags_with_fit(rng, n_bands, k, min_fit=1)
                if not np.any(np.abs(k[(valid == 1) | (valid == 4)]) > 1e-3):
                    continue
            flux, err = gen.photometry_for(rng, valid, np.asarray(pred, float))
            nine = valid == 9
            flux[nine] = 10.0 ** np.clip(np.asarray(pred, float)[nine], -200, 200)
            err[nine] = flux[nine] * 0.1
            if np.any((valid == 2) | (valid == 3)) and rng.random() < 0.5:
                jl = np.where((valid == 2) | (valid == 3))[0]
                err[jl] = 1.0                      # confidence 1: violating models get chi^2 >= 1e30
            _, _, w = O.transform(valid, flux, err)
            fit = w > 0
            if mode == '2d':
                wk = np.sum(w[fit] * k[fit]) / np.sum(w[fit])
                cond = np.sum(w[fit] * (k[fit] - wk) ** 2) / np.sum(w[fit] * k[fit] ** 2)
                if not np.isfinite(cond) or cond < 1e-8:
                    continue
            lo, hi = pkg_range
            truth = fitcheck.GridTruth(names, logm, k, lo, hi, delta=delta, logd=logd)
            REG.clear()
            REG[id(fitter)] = (truth, rownames, mode, resolved or bool(forced_inf))
            wit = dict(wit0, valid=valid, flux=flux, error=err, av_range=(lo, hi))
            CUR.update(phot=(valid, flux, err), wit=wit, summary=None)
            try:
                fitter.fit(gen.build_source('s', valid, flux, err))
            except Exception as exc:
                ctx.raised(exc, 'fit-raised', 'Fitter.fit raised inside the quantifier: %r' % (exc,), wit)
                continue
            sm = CUR.get('summary')
            ctx.case((ip, isrc, ctx.shard), nontrivial=bool(sm and n_models >= 2),
                     sample=dict(mode=mode, n_models=n_models, valid=valid, flux=flux, error=err) if n_models < 10 else None)
            if sm:
                s1, okmf, res = sm
                if s1:
                    ctx.event('rows_checked', s1['rows'])
                if okmf:
                    ctx.event('model_fluxes_checked', len(res.chi2))
                chi = np.asarray(res.chi2, float)
                f = chi[np.isfinite(chi)]
                if f.size > 1 and np.any(np.diff(f) == 0):
                    ctx.regime('exact_ties')
                if np.any(chi >= 1e29):          # (a model excluded by a limit of confidence 1: ">= 1e30", finite or infinite)
                    ctx.regime('rows_1e30')
                if np.any(np.isinf(chi)) and np.any(np.isfinite(chi)):
                    ctx.regime('rows_inf')
                    ctx.regime('rows_non-finite')
                if np.any(np.isnan(chi)) and np.any(np.isfinite(chi)):
                    ctx.regime('rows_nan')
                    ctx.regime('rows_non-finite')
        CUR.update(phot=None)
        ctx.rmdir(d)


def replay(ctx, rec):
    ctx.inconclusive('replay: re-run ./check C04 with VERIF_SEED=%s; the witness holds the literal inputs' % rec.get('seed'))
