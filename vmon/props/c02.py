"""C02 — distance-dependent fits pick the grid optimum of correctly scaled model fluxes.

Monitors: state probe after Fitter.__init__ (distance grid, per-distance model fluxes),
post-condition on Fitter.fit (grid minimum, A_V clipped optimum at the reported distance).
"""
import numpy as np
from astropy import units as u

from .. import gen, pkg, probe, fitcheck
from .. import oracles as O

SHARDS = {'quick': 4, 'thorough': 16, 'quick_timeout': 900, 'thorough_timeout': 3600}

REG = {}
CUR = {}


def install(ctx):
    from sedfitter.fit import Fitter

    def init_post(self, result):
        ctx.event('Fitter.__init__:post')
        CUR['fitter_state'] = True
        return True

    def fit_post(self, source, result):
        ctx.event('Fitter.fit:post')
        tr = REG.get(id(self))
        if tr is not None and CUR.get('phot') is not None:
            valid, flux, error = CUR['phot']
            CUR['summary'] = fitcheck.check_fit3d(ctx, tr, valid, flux, error, result, CUR['wit'])
        return True

    probe.attach(Fitter, '__init__', ensure=init_post)
    probe.attach(Fitter, 'fit', ensure=fit_post)


def distance_range(rng, step, exact=False, a=None):
    if exact:
        # ends that are exact powers of ten, with a dyadic step: the width is an exact multiple of the step in any arithmetic
        a = int(rng.integers(-2, 2)) if a is None else a
        return float(10.0 ** a), float(10.0 ** (a + int(rng.integers(1, 3)))), 'exact-multiple'
    dmin = float(gen.loguniform(rng, 0.05, 20.0))
    kind = str(rng.choice(['equal', 'substep', 'multiple', 'wide', 'wide', 'narrow']))
    if kind == 'equal':
        dmax = dmin
    elif kind == 'substep':
        dmax = dmin * 10 ** (step * rng.uniform(0.05, 0.95))
    elif kind == 'multiple':
        dmax = dmin * 10 ** (step * int(rng.integers(1, 12)))
    elif kind == 'narrow':
        dmax = dmin * 10 ** (step * rng.uniform(1.05, 3.5))
    else:
        dmax = dmin * 10 ** rng.uniform(0.2, 1.6 if rng.random() < 0.8 else 3.0)
    return dmin, dmax, kind


def run(ctx):
    rng = ctx.rng
    install(ctx)
    ctx.rule = ('random aperture-dependent packages (v1 / v2 named filters / v2 wavelength filters; 2-8 apertures; cumulative or '
                'arbitrary in aperture; float32/64; memmap on/off) x log-distance steps x distance ranges (equal ends, sub-step, exact '
                'multiples, beyond-table apertures; pc/kpc/cm) x sources; a case = one Fitter construction (grid+flux oracle) or one '
                'Fitter.fit (optimum oracle); non-trivial = grid checked against truth with >=1 model')
    ctx.assume('oracle: python/longdouble aperture interpolation, inverse-square scaling and per-distance bounded 1-parameter fit from package truth',
               'distance-grid size when L/step is an integer to 1e-9: n or n+1 accepted, except when the ends are exact powers of ten and the step is a dyadic fraction (then L/step is exact in any arithmetic and the count must be L/step+1)',
               'theta*dmin is kept >= 1e-6 relative away from the smallest tabulated aperture (unit round trips may land 1 ulp either side)',
               'float32 memmap compared with a bound of 3e-7*(1+max|log10 F|) dex; float32 (1E) tables with 1e-7 dex (scipy interpolates them in float32)',
               'chi^2 ties between distances: any minimiser accepted')
    ctx.require_events('Fitter.__init__:post', 'Fitter.fit:post', 'grid_checked')
    ctx.require_regimes('step:written-as-integer', 'range:exact-multiple-of-step', 'limit_penalised', 'unit:flux-not-mJy', 'apertures:per-band-tables', 'n=1', 'n=2', 'n>2', 'beyond_table', 'av_clipped', 'av_interior', 'best_first', 'best_mid',
                        'best_last', 'style:v1', 'style:v2name', 'style:v2wav', 'memmap_on', 'memmap_off', 'unit:pc', 'unit:cm', 'angle:arcmin', 'angle:deg',
                        'aperture:exactly-smallest-at-dmin', 'grid:over-a-million-cells', 'range:ends-differ-by-less-than-1e-5')
    n_pkg = 14 if ctx.quick else 160
    n_rng = 3
    n_src = 12 if ctx.quick else 25
    for ip in range(n_pkg):
        d = ctx.newdir('p')
        pkg.YESNO = ip          # spelling of the yes/no flags in models.conf (any case)
        n_models = int(rng.choice([1, 3, 8, 20]))
        n_bands = int(rng.integers(1, 7))        # a single-filter fitter is inside the quantifier (>=1 fitted point)
        n_ap = int(rng.integers(2, 9))
        # one package per run is large: hundreds of models x hundreds of trial distances (a small step over three decades), more
        # than 2**20 (model, distance, band) cells - "any log-distance step", any grid
        big = ip == 1 and ctx.shard == 0
        if big:
            n_models, n_bands = 801, 3
            ctx.regime('grid:over-a-million-cells')
        names = gen.model_names(rng, n_models, 'lex' if big else None)
        wav = gen.band_wavelengths(rng, n_bands)
        style = ['v1', 'v2name', 'v2wav', 'v1'][(ip + ctx.shard) % 4] if ip < 8 else str(rng.choice(['v1', 'v2name', 'v2wav']))
        fmt = str(rng.choice(['D', 'E']))
        step = float(rng.choice([0.01, 0.02, 0.025, 0.05, 0.1, 0.3])) if ip % 4 != 3 else [1.0, 0.25, 0.5, 0.125][((ip // 4) + ctx.shard) % 4]      # (dyadic steps: see 'exact-multiple')
        if big:
            step = 0.005
        if step == 1.0:
            step = 1          # written to models.conf as 'logd_step = 1' (no decimal point)
            ctx.regime('step:written-as-integer')
        aps = gen.aperture_table(rng, n_ap)
        # packages with a dyadic step get a smallest aperture that one band will hit *exactly* at dmin (theta*dmin equal to the
        # smallest tabulated aperture is inside the quantifier): th0 arcsec x 10**(a+3) pc, all exactly representable
        a_exact, th0 = None, None
        if ip % 4 == 3:
            cands = [(a_, t_) for a_ in (1, 0, -1, -2) for t_ in (4.0, 2.0, 1.0, 0.5) if t_ * 10.0 ** (a_ + 3) < 0.9 * aps[1]]
            a_exact, th0 = cands[int(rng.integers(len(cands)))] if cands else (-2, 0.5)
            aps[0] = th0 * 10.0 ** (a_exact + 3)
        conv = gen.conv_grid(rng, n_models, n_bands, n_ap=n_ap)
        if fmt == 'E':
            conv, aps, wav = pkg.r32(conv), pkg.r32(aps), pkg.r32(wav)
        bnames = ['F%d' % i for i in range(n_bands)]
        pinfo = dict(style=style, fmt=fmt, n_models=n_models, n_bands=n_bands, n_ap=n_ap, step=step)
        aps_band = None
        if style == 'v1':
            order = list(rng.permutation(n_models))
            funit = ['mJy', 'Jy', 'uJy'][ip % 3]           # the unit the convolved files are tabulated in
            if funit != 'mJy':
                ctx.regime('unit:flux-not-mJy')
            if ip % 2 == 0:
                # every band with its own aperture table (each convolved file carries one), all spanning the common range
                aps_band = []
                for f in range(n_bands):
                    inner = np.sort(gen.loguniform(rng, aps[0] * 1.01, aps[-1] * 0.99, n_ap - 2)) if n_ap > 2 else np.array([])
                    t_ = np.concatenate([[aps[0]], inner, [aps[-1]]])
                    aps_band.append(pkg.r32(t_) if fmt == 'E' else t_)
                ctx.regime('apertures:per-band-tables')
            gen.write_grid_v1(d, names, bnames, wav, conv, apertures=aps_band if aps_band is not None else aps, aperture_dependent=True,
                              logd_step=step, fmt=fmt, table_order=order, flux_unit=funit)
            pinfo['flux_unit'] = funit
            filt = bnames
        elif style == 'v2name':
            gen.write_grid_v2(d, names, bnames, wav, conv, apertures=aps, aperture_dependent=True,
                              logd_step=step, fmt=fmt)
            filt = bnames
        else:
            cw = np.unique(np.concatenate([wav, gen.loguniform(rng, 0.3, 500.0, int(rng.integers(0, 3)))]))
            cube = gen.conv_grid(rng, n_models, len(cw), n_ap=n_ap)
            for f, wv in enumerate(wav):
                cube[:, :, np.where(cw == wv)[0][0]] = conv[:, :, f]
            desc = bool(rng.random() < 0.5)
            gen.write_grid_v2(d, names, [None] * n_bands, wav, conv, apertures=aps, aperture_dependent=True,
                              logd_step=step, cube_wav=cw, cube=cube, cube_unc=cube * 0.05, cube_desc=desc)
            filt = [w * u.micron for w in wav]
            pinfo['cube_desc'] = desc
        ctx.regime('style:' + style)
        lw, lc = gen.make_law_arrays(rng)
        if np.any(np.isclose(wav, lw[0])) or np.any(np.isclose(wav, lw[-1])):
            ctx.rmdir(d)
            continue
        law = gen.build_law(lw, lc, wav_unit=[None, u.nm, u.AA, u.cm][(ip // 2) % 4])          # the law's wavelengths may be tabulated in any length unit
        k = O.ext_pattern(lw, lc, wav)
        if np.max(np.abs(k)) < 1e-3:
            ctx.rmdir(d)
            continue

        for ir in range(n_rng):
            exact = step in (0.125, 0.25, 0.5, 1.0) and ir == 0
            dmin, dmax, kind = distance_range(rng, step, exact=exact, a=a_exact if exact else None)
            if big:
                dmin = float(gen.loguniform(rng, 0.05, 1.0))
                dmax, kind = dmin * 10 ** 3.0, 'wide'
            if ir == 1 and ip % 3 == 1 and not big:
                # a very narrow range whose ends still differ (by 1e-8 .. 1e-5 relative): non-degenerate, so both ends are trial distances
                dmax, kind = dmin * (1.0 + 10.0 ** float(rng.uniform(-8, -5))), 'hair'
                ctx.regime('range:ends-differ-by-less-than-1e-5')
            if exact:
                ctx.regime('range:exact-multiple-of-step')
            # apertures: theta such that theta*dmin_pc sits inside the table, some pushing beyond a_max at dmax
            theta = np.zeros(n_bands)
            for f in range(n_bands):
                mode = rng.random()
                if mode < 0.25:      # beyond the table somewhere in the range (or everywhere)
                    a_at_dmin = aps[-1] * rng.uniform(0.3, 3.0)
                elif mode < 0.4:     # just above the smallest
                    a_at_dmin = aps[0] * (1 + 10 ** rng.uniform(-5, -1))
                else:
                    a_at_dmin = float(gen.loguniform(rng, aps[0] * 1.001, aps[-1]))
                theta[f] = max(a_at_dmin, aps[0] * (1 + 2e-6)) / (dmin * 1000.0)
            if exact and th0 is not None:
                theta[0] = th0          # theta*dmin is exactly the smallest tabulated aperture of band 0
                ctx.regime('aperture:exactly-smallest-at-dmin')
            unit = rng.choice(['kpc', 'pc', 'cm']) if not exact else 'kpc'          # (a unit conversion would spoil the exact ends)
            ctx.regime('unit:' + str(unit))
            dunit = {'kpc': u.kpc, 'pc': u.pc, 'cm': u.cm}[str(unit)]
            dr_q = (np.array([dmin, dmax]) * u.kpc).to(dunit)
            dkpc = dr_q.to(u.kpc).value          # what "the requested ends" are after the user's unit choice
            dmin_k, dmax_k = float(dkpc[0]), float(dkpc[1])
            memmap = bool(rng.random() < 0.5)
            is_v2 = style != 'v1'
            if is_v2:
                ctx.regime('memmap_on' if memmap else 'memmap_off')
            wit0 = dict(pinfo, theta=theta, apertures=aps, dmin=dmin_k, dmax=dmax_k, kind=kind, unit=str(unit),
                        memmap=memmap, band_wav=wav)
            from sedfitter.fit import Fitter
            # negative control: a band whose theta*dmin is below the smallest aperture must be refused
            if ir == 0:
                th_bad = theta.copy()
                fb = int(rng.integers(n_bands))
                th_bad[fb] = aps[0] * (1 - 10 ** rng.uniform(-5, -0.3)) / (dmin_k * 1000.0)
                # (outside C02's quantifier - refusal below the table is C13's statement: observed, not judged here)
                try:
                    Fitter(list(filt), th_bad * u.arcsec, d, extinction_law=law, av_range=(0., 1.),
                           distance_range=dr_q, use_memmap=memmap)
                except Exception:
                    ctx.event('too_small_refused')
                else:
                    ctx.event('too_small_accepted(outside the quantifier)')
            # apertures may be given in any angle unit; the A_V range is a constructor argument: one Fitter per range
            aunit = [u.arcsec, u.arcsec, u.arcmin, u.deg][int(rng.integers(4))]
            if exact:
                aunit = u.arcsec          # (a unit round trip of theta would spoil the exact product)
            ctx.regime('angle:' + str(aunit))
            ranges = [(-1e3, 1e3), (9.0, 40.0), (-25.0, 5.0), (0, 40), (7.5, 7.5)]
            fitters = []
            try:
                for (lo_, hi_) in ranges:
                    fitters.append(Fitter(list(filt), (theta * u.arcsec).to(aunit), d, extinction_law=law, av_range=(lo_, hi_),
                                          distance_range=dr_q, use_memmap=memmap))
            except Exception as exc:
                ctx.raised(exc, 'grid:fitter-construction-failed', 'Fitter() raised inside the quantifier: %r' % (exc,), wit0)
                continue
            fitter = fitters[0]
            # the unit round trip of the apertures is part of "theta": use the values the user's quantity converts back to
            theta = np.asarray((theta * u.arcsec).to(aunit).to(u.arcsec).value, float)
            dist = np.asarray(fitter.models.distances.to(u.kpc).value, float)
            gok = fitcheck.check_distance_grid(ctx, dist, dmin_k, dmax_k, step, wit0, exact=exact)
            ctx.event('grid_checked')
            n = len(dist)
            ctx.regime('n=1' if n == 1 else ('n=2' if n == 2 else 'n>2'))
            ctx.case(('grid', ip, ir, ctx.shard), nontrivial=True,
                     sample=dict(wit0, n_distances=n) if ip < 2 else None)
            if not gok:
                continue
            logm = fitcheck.grid_logm(conv, aps_band if aps_band is not None else aps, theta, dist)
            if np.any(theta[None, :] * dist[:, None] * 1000.0 > aps[-1]):
                ctx.regime('beyond_table')
            # float32 memmap: log10 evaluated in float32; float32 (1E, the documented format) tables are
            # interpolated by scipy in float32 arithmetic: relative 1e-7 on the flux = 5e-8 dex
            delta = 3e-7 * (1 + float(np.max(np.abs(logm)))) if ((memmap and is_v2) or fitcheck.holds_float32(fitter)) else (1e-7 if fmt == 'E' else 0.0)
            # model fluxes held by the fitter vs truth (rows by name)
            # state probe: the per-distance model fluxes held by the fitter.  This looks at internal state, so a different
            # layout (shape/attribute) is not judged - the fits below decide then; a same-shaped table with wrong values is.
            try:
                mf = np.asarray(fitter.models.fluxes.to(u.mJy).value, float)
                mnames = [str(x).strip() for x in fitter.models.names]
                rowidx = [names.index(x) for x in mnames] if sorted(mnames) == sorted(names) else None
            except Exception:
                mf, rowidx = None, None
            if rowidx is not None and mf is not None and mf.shape == (len(names), len(dist), n_bands):
                ref = np.asarray(10.0 ** logm[rowidx], float)
                rt = 1e-9 if not delta else 5e-7
                # what the fitter *holds* is not part of the statement (it may keep unscaled fluxes and apply (1 kpc/d)^2 later):
                # recorded as a diagnostic only; the fits below decide "the model flux at each distance" through chi^2, A_V and scale
                if not O.close(mf, ref, rtol=rt):
                    ctx.event('fluxes_state_probe:held-table-differs-from-scaled-reference')
                else:
                    ctx.event('fluxes_checked', int(mf.size))
            else:
                ctx.event('fluxes_state_probe_unavailable')

            logd = np.log10(dist)
            for isrc in range(n_src if not big else 2):
                m0 = int(rng.integers(n_models))
                j0 = int(rng.integers(n))
                a0 = float(rng.uniform(0, 15))
                pred = np.asarray(logm[m0, j0], float) + a0 * k
                valid = gen.flags_with_fit(rng, n_bands, k, min_fit=1)
                fit = (valid == 1) | (valid == 4)
                if not np.any(np.abs(k[fit]) > 1e-3):
                    continue
                flux, err = gen.photometry_for(rng, valid, pred, wild=rng.random() < 0.1)
                nine = valid == 9
                flux[nine] = 10.0 ** np.clip(pred[nine], -200, 200)
                err[nine] = flux[nine] * 0.1
                src = gen.build_source('s%d_%d_%d' % (ip, ir, isrc), valid, flux, err)
                for fitter, (lo, hi) in zip(fitters, ranges):
                    tr = fitcheck.GridTruth(names, logm, k, lo, hi, delta=delta, logd=logd, tag=str(pinfo))
                    REG.clear()
                    REG[id(fitter)] = tr
                    wit = dict(wit0, valid=valid, flux=flux, error=err, av_range=(lo, hi), law_wav=lw, law_chi=lc,
                               planted=(m0, j0, a0), conv=conv)
                    CUR.update(phot=(valid, flux, err), wit=wit, summary=None)
                    try:
                        fitter.fit(src)
                    except Exception as exc:
                        ctx.raised(exc, 'fit3d:fit-raised', 'Fitter.fit raised inside the quantifier: %r' % (exc,), wit)
                        continue
                    sm = CUR.get('summary')
                    ctx.case(('fit', ip, ir, isrc, lo, hi, ctx.shard), nontrivial=sm is not None)
                    if sm:
                        ctx.event('rows_checked', sm['rows'])
                        for key, reg in (('clipped', 'av_clipped'), ('interior', 'av_interior'), ('best_first', 'best_first'),
                                         ('best_mid', 'best_mid'), ('best_last', 'best_last'), ('penalised', 'limit_penalised')):
                            if sm[key]:
                                ctx.regime(reg, sm[key])
            CUR.update(phot=None)
        ctx.rmdir(d)


def replay(ctx, rec):
    ctx.inconclusive('replay: re-run ./check C02 with VERIF_SEED=%s; the witness holds the literal inputs' % rec.get('seed'))
