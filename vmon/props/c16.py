"""C16 — monochromatic convolution emits every in-range wavelength at any memory limit.

Observed: file-effect trace of convolve_model_dir_monochromatic (which convolved/MOnnn.fits
were opened for writing), their contents (plain astropy), the returned table; for every
window x chunk size (exhaustive for small n_wav).  Cube packages: the slice a wavelength
"filter" selects.
"""
import os
import shutil

import numpy as np
from astropy import units as u

from .. import gen, pkg, probe, convcheck, effects
from .. import oracles as O

SHARDS = {'quick': 4, 'thorough': 16, 'quick_timeout': 900, 'thorough_timeout': 5400}


def window_ends(wav_asc):
    """positions below / on / between / above the tabulated wavelengths"""
    pos = [wav_asc[0] * 0.5]
    for i, w in enumerate(wav_asc):
        pos.append(float(w))
        if i + 1 < len(wav_asc):
            pos.append(float(0.5 * (w + wav_asc[i + 1])))
    pos.append(wav_asc[-1] * 2.0)
    return pos


READS = [0]


def install(ctx):
    """counts SED.read calls: how many passes over the SED files a run made is *observed* (chunking is not inferred from
    the package's memory formula)"""
    from sedfitter.sed import SED

    def read_post(cls, filename, result):
        READS[0] += 1
        return True

    probe.attach(SED, 'read', ensure=read_post)


def run_once(ctx, mono, d, truth, order_names, lo, hi, ram_units, wit0, default_window=False, wunit=None, pre='absent'):
    """ram_units: the memory limit, in units of one wavelength of float32 flux+error for all models and apertures"""
    n_w = truth.n_wav
    wav_desc = truth.wav[::-1]
    must = [j for j in range(n_w) if lo < wav_desc[j] < hi]
    may = [j for j in range(n_w) if wav_desc[j] == lo or wav_desc[j] == hi]
    if wunit is not None:
        # the window given in another length unit: the conversion may move an end that sits on a tabulated wavelength
        may = [j for j in range(n_w) if abs(wav_desc[j] - lo) <= 1e-12 * lo or abs(wav_desc[j] - hi) <= 1e-12 * hi]
        must = [j for j in must if j not in may]
    shutil.rmtree(os.path.join(d, 'convolved'), ignore_errors=True)
    if pre == 'empty':          # the sub-directory is already there
        os.mkdir(os.path.join(d, 'convolved'))
    max_ram = ram_units * 8.0 * truth.n_models * truth.n_ap / 1024. ** 3
    wit = dict(wit0, window=(lo, hi), memory_limit_in_wavelengths_of_float32=ram_units, max_ram_gb=max_ram, wav_desc=wav_desc, must=[j + 1 for j in must], may=[j + 1 for j in may],
               window_unit=str(wunit or 'micron'), convolved_dir=pre)
    if default_window:
        kw = {}
    elif wunit is None:
        kw = dict(wav_min=lo * u.micron, wav_max=hi * u.micron)
    else:
        kw = dict(wav_min=(lo * u.micron).to(wunit), wav_max=(hi * u.micron).to(wunit))
    table = None
    exc = None
    r0 = READS[0]
    with effects.trace() as tr:
        try:
            table = mono(d, max_ram=max_ram, **kw)
        except Exception as e:
            exc = e
    ctx.event('mono:run')
    reads = READS[0] - r0
    # passes over the SED files (one read of one file is spent on finding the wavelengths): observed, not inferred
    passes = None if reads == 0 else max(0, int(round((reads - 1) / float(truth.n_models))))
    wit['sed_reads'] = reads
    wit['passes_over_the_seds'] = passes
    nothing_written = not (os.path.isdir(os.path.join(d, 'convolved')) and os.listdir(os.path.join(d, 'convolved')))
    if exc is not None and nothing_written and must and reads <= 1:
        # refused before any pass over the SEDs started and without writing anything: if the same window is served at a
        # larger limit, this limit was too small to hold a chunk (it "yields no chunk size": outside the quantifier) - the
        # caller decides once it has seen the other limits of the ladder
        return ('refused-early', exc, wit)
    wrote = sorted(set(os.path.basename(p) for p in tr.produced(under=os.path.join(d, 'convolved'))))
    ondisk = sorted(os.listdir(os.path.join(d, 'convolved'))) if os.path.isdir(os.path.join(d, 'convolved')) else []
    # the files present afterwards are what "writes exactly one file per wavelength" is about; a file that was opened
    # for writing and is gone again (temporary + rename) is not a violation; a file present that was never opened is
    if [f for f in ondisk if f not in wrote]:
        ctx.violation('trace-vs-listing', 'a file is present that was never opened for writing during the call', dict(wit, traced=wrote, listing=ondisk))
    wrote = sorted(ondisk)
    # which wavelength a file is for is read from the file (FILTWAV), not from its name
    idx, file_of = [], {}
    for name in wrote:
        try:
            fw = float(convcheck.read_convolved_plain(os.path.join(d, 'convolved', name))['filtwav'])
            j = int(np.argmin(np.abs(wav_desc - fw)))
            assert abs(wav_desc[j] / fw - 1) <= 1e-12
        except Exception:
            ctx.violation('unexpected-file', 'a file was written that is not a convolved-flux table for one of the SED wavelengths: %s' % name, wit)
            continue
        if j in file_of:
            ctx.violation('files:duplicate', 'more than one file for one SED wavelength', dict(wit, files=[file_of[j], name]))
            continue
        file_of[j] = name
        idx.append(j)
    empty = not must
    if empty and not may:
        # empty window: zero files; table-with-no-names or an exception both accepted
        if wrote:
            ctx.violation('empty-window-writes-files', 'a window containing no tabulated wavelength wrote files', dict(wit, written=wrote))
        ctx.regime('window:empty')
        return
    if not must and exc is not None:
        # only window-end wavelengths (don't-care): treating the window as empty is accepted
        if wrote:
            ctx.violation('empty-window-writes-files', 'the call failed after writing files', dict(wit, written=wrote))
        ctx.regime('window:empty')
        return
    if exc is not None and must:
        ctx.violation('mono-raised', 'convolve_model_dir_monochromatic raised on a non-empty window: %r' % (exc,), wit)
        return
    missing = [j + 1 for j in must if j not in idx]
    extra = [j + 1 for j in idx if j not in must and j not in may]
    if missing or extra:
        kind = 'missing' if missing else 'extra'
        last = (max(must) + 1) in missing if must else False
        key = 'files:%s%s' % (kind, ':chunked' if (passes or 0) > 1 else ':single-chunk')
        ctx.violation(key, 'not exactly one file per SED wavelength inside the window (missing MO%s, extra MO%s)' % (missing, extra),
                      dict(wit, written=wrote, missing=missing, extra=extra))
    if len(must) == 1:
        ctx.regime('window:single')
    if passes is not None and len(must) >= 2:
        ctx.regime('chunk<n' if passes > 1 else 'chunk=n')
        if passes >= len(must):
            ctx.regime('chunk=1')
    # contents
    rows = [truth.index(n) for n in order_names]
    for j in idx:
        if j < 0 or j >= n_w:
            continue
        g = convcheck.read_convolved_plain(os.path.join(d, 'convolved', file_of[j]))
        iw = n_w - 1 - j                         # index into the ascending truth arrays
        ref_f, ref_e = truth.flux[rows][:, :, iw], truth.err[rows][:, :, iw]
        ctx.event('file:checked')
        if g['names'] != order_names:
            ctx.violation('content:row-order', 'rows are not in parameter-table order', dict(wit, file=j + 1, rows=g['names'], expected=order_names))
            continue
        if g['flux'].shape != ref_f.shape or not O.close(g['flux'], ref_f, 1e-12) or not O.close(g['err'], ref_e, 1e-12):
            ctx.violation('content:wrong-values', 'a file does not hold each model\'s SED flux/error at its wavelength',
                          dict(wit, file=j + 1, got=g['flux'][0], expected=ref_f[0]))
        if truth.apertures is not None and truth.n_ap > 1:
            apu = g['aperture_unit']
            try:
                ga = None if g['apertures'] is None else (np.asarray(g['apertures'], float) * u.Unit(apu if apu not in (None, 'AU') else 'au')).to(u.au).value
            except Exception:
                ga = None
            if ga is None or ga.shape != np.shape(truth.apertures) or not O.close(ga, truth.apertures, 1e-12):
                ctx.violation('content:apertures', 'the apertures stored with a file are not the SED apertures (in their order)', dict(wit, file=j + 1, got=g['apertures'], unit=apu, expected_au=truth.apertures))
        if g['nmodels'] not in (None, truth.n_models) or g['nap'] not in (None, truth.n_ap):
            ctx.violation('content:header-counts', 'NMODELS / NAP in the header do not match the table', dict(wit, file=j + 1, nmodels=g['nmodels'], nap=g['nap']))
        if g['filtwav'] is None or abs(g['filtwav'] / wav_desc[j] - 1) > 1e-12:
            ctx.violation('content:filtwav', 'FILTWAV is not the wavelength of the slice', dict(wit, file=j + 1, got=g['filtwav'], expected=wav_desc[j]))
    # returned table
    if table is None:
        ctx.violation('table:none', 'no table returned', wit)
        return
    try:
        tw = np.asarray(table['wav'].to(u.micron).value if hasattr(table['wav'], 'to') else table['wav'], float)
        tn = [x.decode() if isinstance(x, bytes) else str(x) for x in table['filter']]
    except Exception as e:
        ctx.raised(e, 'table:unreadable', 'returned table cannot be read: %r' % (e,), wit)
        return
    named = {n.strip(): w for n, w in zip(tn, tw) if n.strip()}
    want = {file_of[j].replace('.fits', '').replace('.gz', ''): wav_desc[j] for j in idx if 0 <= j < n_w}
    if set(named) != set(want) or any(abs(named[k] / want[k] - 1) > 1e-12 for k in want):
        ctx.violation('table:does-not-name-files', 'returned table does not name exactly the written files at their wavelengths',
                      dict(wit, table=named, files=want))
    return sorted(idx)


def run(ctx):
    rng = ctx.rng
    install(ctx)
    from sedfitter.convolve import convolve_model_dir_monochromatic as mono
    nexh = 3 if ctx.quick else 6
    ctx.rule = ('per-file packages with 2..9 wavelengths, 1..3 apertures, 1..5 models; every window whose ends lie below/on/between/above the tabulated '
                'wavelengths (exhaustive for n_wav<=%d, sampled above) x a ladder of memory limits reaching every chunk size 1..n_wav (chunking observed as passes over the SED files) + the default window; file set and contents '
                'must be identical across chunk sizes. a case = one (window, chunk) run; non-trivial = >=1 wavelength strictly inside') % nexh
    ctx.exhaustive = True
    ctx.extra['exhaustive_subspace'] = 'windows x chunk sizes for n_wav <= %d' % nexh
    ctx.assume('a window end exactly on a tabulated wavelength: including or excluding it are both accepted (docstring: exclusive; code: inclusive below)',
               'an empty window must write zero files; returning an empty table or raising are both accepted',
               'file-effect trace: sys.addaudithook open/remove events',
               'a memory limit that is refused before any pass over the SEDs and without writing anything, while larger limits serve the same window, yields no chunk size: outside the quantifier')
    ctx.require_events('mono:run', 'file:checked', 'chunk-invariance', 'cube:nearest-slice', 'cube:filter-list-re-used-across-packages')
    ctx.require_regimes('package:model-with-exactly-zero-cells', 'window:empty', 'window:single', 'chunk<n', 'chunk=n', 'chunk=1', 'window:default', 'window:other-unit', 'convolved-dir:pre-existing',
                        'package:sed-subdirectories', 'cube:no-uncertainties', 'cube:named-and-wavelength-filters', 'cube:aperture-dependent', 'cube:filter-other-unit')
    ipk = 0
    sizes = list(range(2, nexh + 1)) + ([6, 9] if ctx.quick else [7, 8, 9])
    for n_w in sizes:
        for rep in range(2 if n_w <= nexh else 1):
            ipk += 1
            if not ctx.mine(ipk):
                continue
            n_m, n_ap = int(rng.integers(1, 6)), int(rng.integers(1, 4))
            truth = convcheck.make_truth(rng, n_m, n_ap, n_w, names=gen.model_names(rng, n_m))
            if ipk % 2 == 0 and n_m >= 2:
                # a model without any emission at some wavelengths (flux and error exactly zero in every aperture), e.g. an embedded
                # source at short wavelengths, next to models that do emit there
                mz = int(rng.integers(n_m))
                zw = rng.random(n_w) < 0.5
                zw[int(rng.integers(n_w))] = True
                truth.flux[mz][:, zw] = 0.0
                truth.err[mz][:, zw] = 0.0
                ctx.regime('package:model-with-exactly-zero-cells')
            d = ctx.newdir('mo')
            order = list(rng.permutation(n_m))
            lsub = [0, 1, 0, 2][ipk % 4]          # SEDs in seds/<first letters>/ (documented layout for large packages)
            if lsub:
                ctx.regime('package:sed-subdirectories')
            pkg.build_v1(d, truth, table_order=order, desc=rng.random(n_m) < 0.5, gz=rng.random(n_m) < 0.3, fmt='D', length_subdir=lsub)
            shutil.rmtree(os.path.join(d, 'convolved'), ignore_errors=True)
            order_names = [truth.names[i] for i in order]
            wit0 = dict(n_models=n_m, n_ap=n_ap, n_wav=n_w)
            ends = window_ends(truth.wav)
            windows = [(a, b) for i, a in enumerate(ends) for b in ends[i:]]
            if n_w > nexh:
                sel = rng.choice(len(windows), 25 if ctx.quick else 60, replace=False)
                windows = [windows[i] for i in sel]
            for (lo, hi) in windows:
                sets = {}
                # memory limits: a ladder from one wavelength of float32 flux+error up to twice the whole SED, so that chunk sizes
                # 1..n_wav are reached whatever bytes-per-value the package accounts for (4 today; 8 would be honest for float64)
                chunks = list(range(1, 2 * n_w + 2)) if n_w <= nexh else sorted(set([1, 2, 3, n_w // 2 + 1, n_w, n_w + 2, 2 * n_w, 2 * n_w + 1]))
                chunks += [32 * (n_w + 1), 1024 * (n_w + 1)]          # ... and two generous limits (whatever else the package accounts for)
                wunit = [None, None, u.nm, u.mm, u.AA][int(rng.integers(5))]
                if wunit is not None:
                    ctx.regime('window:other-unit')
                refused = []
                served = []
                for c in chunks:
                    pre = 'empty' if rng.random() < 0.3 else 'absent'
                    if pre == 'empty':
                        ctx.regime('convolved-dir:pre-existing')
                    wrote = run_once(ctx, mono, d, truth, order_names, lo, hi, c + 0.5, wit0, wunit=wunit, pre=pre)
                    if isinstance(wrote, tuple) and wrote and wrote[0] == 'refused-early':
                        refused.append((c, wrote[1], wrote[2]))
                        wrote = None
                    elif wrote is not None:
                        served.append(c)
                    inside = sum(1 for w in truth.wav if lo < w < hi)
                    ctx.case(('win', ipk, lo, hi, c, ctx.shard), nontrivial=inside >= 1,
                             sample=dict(wit0, window=(lo, hi), chunk=c, wav=truth.wav, written=wrote) if inside == 1 and len(ctx.samples) < 2 else None)
                    if wrote is not None:
                        sets[c] = tuple(wrote)
                # limits refused before anything was read: fine when they all lie below the smallest limit that served this window
                for (c_, exc_, wit_) in refused:
                    if served and c_ < min(served):
                        ctx.event('limit-too-small:refused')
                    else:
                        ctx.raised(exc_, 'mono-raised', 'convolve_model_dir_monochromatic raised on a non-empty window (at a memory limit at which smaller limits served it, or at every limit): %r' % (exc_,), wit_)
                        break
                if len(set(sets.values())) > 1:
                    ctx.violation('chunk-size-changes-file-set', 'the set of files depends on the memory limit',
                                  dict(wit0, window=(lo, hi), by_chunk={str(k): v for k, v in sets.items()}))
                ctx.event('chunk-invariance')
            # default window: everything
            res_def = {}
            for c in (1, n_w, 2 * n_w + 1, 1024 * (n_w + 1)):
                ctx.regime('window:default')
                res_def[c] = run_once(ctx, mono, d, truth, order_names, -np.inf, np.inf, c + 0.5, wit0, default_window=True)
                ctx.case(('default', ipk, c, ctx.shard), nontrivial=True)
            ok_def = [c for c, r_ in res_def.items() if not (isinstance(r_, tuple) and r_ and r_[0] == 'refused-early')]
            for c, r_ in res_def.items():
                if isinstance(r_, tuple) and r_ and r_[0] == 'refused-early':
                    if ok_def and c < min(ok_def):
                        ctx.event('limit-too-small:refused')
                    else:
                        ctx.raised(r_[1], 'mono-raised', 'convolve_model_dir_monochromatic raised for the default window: %r' % (r_[1],), r_[2])
            ctx.rmdir(d)

    # ---- cube packages: wavelength instead of a filter name -> nearest tabulated slice ----
    for it in range(6 if ctx.quick else 30):
        n_m, n_w = int(rng.integers(1, 6)), int(rng.integers(2, 10))
        multi = bool(it % 4 >= 2)                    # aperture-dependent cube package: the slice is then interpolated in aperture per distance
        truth = convcheck.make_truth(rng, n_m, 4 if multi else 1, n_w, names=gen.model_names(rng, n_m))
        d = ctx.newdir('cu')
        desc = bool(rng.random() < 0.5)
        with_unc = bool(it % 3 != 1)                 # uncertainties are an optional part of a cube
        if not with_unc:
            ctx.regime('cube:no-uncertainties')
        if multi:
            ctx.regime('cube:aperture-dependent')
        pkg.build_v2(d, truth, aperture_dependent=multi, logd_step=0.1, descending_wav=desc, with_unc=with_unc)
        req = []
        for _ in range(int(rng.integers(1, 5))):
            w = float(gen.loguniform(rng, truth.wav[0] * 0.5, truth.wav[-1] * 2))
            dist = np.abs(truth.wav - w)
            s = np.sort(dist)
            if len(s) > 1 and (s[1] - s[0]) < 1e-6 * w:
                continue        # ties are free: not generated
            req.append(w)
        if rng.random() < 0.5:
            req.append(float(truth.wav[int(rng.integers(n_w))]))
        if not req:
            continue
        lw, lc = gen.make_law_arrays(rng, n=10, lo=0.01, hi=1e4)
        # the wavelength "filters" may be given in any length unit
        funits = [[u.micron, u.nm, u.AA, u.mm][int(rng.integers(4))] if it % 2 else u.micron for _ in req]
        flist = [(w * u.micron).to(fu_) for w, fu_ in zip(req, funits)]
        if any(fu_ != u.micron for fu_ in funits):
            ctx.regime('cube:filter-other-unit')
        named = {}
        if it % 2 == 0:
            # a named (convolved) filter among the wavelengths, at a random position of the list
            ctx.regime('cube:named-and-wavelength-filters')
            nf = gen.conv_grid(rng, n_m, 1)[:, :, 0]
            if multi:
                nf = np.repeat(nf, 4, axis=1)          # flat in aperture: the value is the same at every radius
            pkg.write_convolved_file(os.path.join(d, 'convolved', 'NAMED1.fits'), truth.names, truth.apertures if multi else None, nf, nf * 0.1, 3.3)
            pos = int(rng.integers(len(flist) + 1))
            flist.insert(pos, 'NAMED1')
            named[pos] = nf[:, 0]
        theta = np.ones(len(flist))
        if multi:       # apertures that fall inside the table at every distance of the grid (1..2 kpc)
            if truth.apertures[-1] * 0.5 <= truth.apertures[0] * 1.02:
                ctx.rmdir(d)          # table spanning less than a factor two: no such aperture exists
                continue
            theta = np.array([float(gen.loguniform(rng, truth.apertures[0] * 1.01, truth.apertures[-1] * 0.5)) for _ in flist]) / 1000.0
        try:
            ft = gen.make_fitter(flist, theta, d, gen.build_law(lw, lc), (0., 1.), (1.0, 2.0), use_memmap=False)
        except Exception as exc:
            ctx.raised(exc, 'cube:fitter-raised:%s' % ('no-uncertainties' if not with_unc else type(exc).__name__),
                          'Fitter with wavelength filters raised: %r' % (exc,),
                          {'requested': [str(x) for x in flist], 'cube_wav': truth.wav, 'cube_desc': desc, 'cube_has_uncertainties': with_unc})
            ctx.rmdir(d)
            continue
        got = np.asarray(ft.models.fluxes.to(u.mJy).value, float)
        names = [str(x).strip() for x in ft.models.names]
        rows = [truth.index(n) for n in names]
        for f, w in enumerate(flist):
            if f in named:
                gcol = got[:, f] if not multi else got[:, 0, f] * float(ft.models.distances.to(u.kpc).value[0]) ** 2
                if not O.close(gcol, named[f][rows], 1e-12 if not multi else 1e-9):
                    ctx.violation('cube:named-filter-wrong-column', 'a named filter listed among wavelength filters did not get its own convolved fluxes',
                                  {'requested': [str(x) for x in flist], 'position': f})
                continue
            w = float(w.to(u.micron).value)
            j = int(np.argmin(np.abs(truth.wav - w)))
            ctx.event('cube:nearest-slice')
            if multi:
                dk = np.asarray(ft.models.distances.to(u.kpc).value, float)
                ref = np.array([[float(O.interp_aperture(truth.apertures, truth.flux[r, :, j], theta[f] * dd * 1000.0)) / dd ** 2 for dd in dk] for r in rows])
                if got.shape[:2] != ref.shape or not O.close(got[:, :, f], ref, 1e-9):
                    ctx.violation('cube:not-nearest-slice', 'a wavelength given instead of a filter name did not select the slice at the nearest tabulated wavelength (aperture-dependent package)',
                                  {'requested': w, 'cube_wav': truth.wav, 'cube_desc': desc, 'nearest': float(truth.wav[j]), 'got': got[:, :, f][0], 'expected': ref[0]})
                continue
            if not O.close(got[:, f], truth.flux[rows][:, 0, j], 1e-12):
                ctx.violation('cube:not-nearest-slice', 'a wavelength given instead of a filter name did not select the slice at the nearest tabulated wavelength',
                              {'requested': w, 'cube_wav': truth.wav, 'cube_desc': desc, 'nearest': float(truth.wav[j]), 'got': got[:, f], 'expected': truth.flux[rows][:, 0, j]})
        # the same list of wavelength filters (the caller's own objects, as handed to Models.read) serves one package after the
        # other: every package must be asked for the wavelengths the caller put in
        if not multi and with_unc:
            from sedfitter.models import Models
            want_um = [float(x_) for x_ in SHARED_WAV]
            ties = any(len(truth.wav) > 1 and (np.sort(np.abs(truth.wav - w_))[1] - np.sort(np.abs(truth.wav - w_))[0]) < 1e-6 * w_ for w_ in want_um)
            if not ties:
                if not SHARED_FILTERS:
                    SHARED_FILTERS.extend({'wav': w_ * u.micron, 'aperture_arcsec': 1.0} for w_ in want_um)
                try:
                    m_ = Models.read(d, SHARED_FILTERS, use_memmap=False)
                    gm = np.asarray(m_.fluxes.to(u.mJy).value, float)
                    rws = [truth.index(str(n_).strip()) for n_ in m_.names]
                    ctx.event('cube:filter-list-re-used-across-packages')
                    for f_, w_ in enumerate(want_um):
                        j_ = int(np.argmin(np.abs(truth.wav - w_)))
                        if gm.shape != (len(rws), len(want_um)) or not O.close(gm[:, f_], truth.flux[rws][:, 0, j_], 1e-12):
                            ctx.violation('cube:not-nearest-slice:filter-list-re-used', 'with a filter list that already served another package, a wavelength did not select the slice nearest to the wavelength the caller asked for',
                                          {'requested': w_, 'cube_wav': truth.wav, 'nearest': float(truth.wav[j_]), 'got': gm[:, f_] if gm.ndim == 2 else None, 'expected': truth.flux[rws][:, 0, j_]})
                            break
                except Exception as exc:
                    ctx.raised(exc, 'cube:models-read-raised', 'Models.read with wavelength filters raised: %r' % (exc,), {'requested': want_um, 'cube_wav': truth.wav})
        ctx.case(('cube', it, ctx.shard), nontrivial=True)
        ctx.rmdir(d)


SHARED_WAV = (0.9, 7.3, 55.0, 410.0)
SHARED_FILTERS = []


def replay(ctx, rec):
    ctx.inconclusive('replay: re-run ./check C16 with VERIF_SEED=%s' % rec.get('seed'))
