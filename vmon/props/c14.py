"""C14 — the extinction law is normalised at V, unit-free and zero outside its table.

Post-condition contract on Extinction.get_av against an independent python interpolation;
invariance pairs (opacity scaling, unit changes); round trips (pickle, table, text file).
"""
import os
import pickle

import numpy as np
from astropy import units as u

from .. import gen, probe
from .. import oracles as O

SHARDS = {'quick': 2, 'thorough': 8, 'quick_timeout': 600, 'thorough_timeout': 3600}

LEN = {'um': (u.micron, 1.0), 'nm': (u.nm, 1e-3), 'cm': (u.cm, 1e4), 'm': (u.m, 1e6), 'AA': (u.AA, 1e-4), 'mm': (u.mm, 1e3)}
CHI = {'cm2/g': (u.cm ** 2 / u.g, 1.0), 'm2/kg': (u.m ** 2 / u.kg, 10.0)}


def to_um(q):
    for name, (unit, fac) in LEN.items():
        if q.unit == unit:
            return np.asarray(q.value, float) * fac
    return None


def interp_amplification(tw, chi, q):
    """rounding of y0 + t (y1 - y0) relative to the result: ~ eps * max(|y0|, |y1|) / |y| for each interpolation;
    the pattern divides two interpolations (at the query and at 0.55 um), so both amplifications add"""
    tw = np.asarray(tw, float)
    chi = np.asarray(chi, float)

    def amp(x):
        x = np.atleast_1d(np.asarray(x, float))
        i = np.clip(np.searchsorted(tw, x, side='right') - 1, 0, len(tw) - 2)
        hi = np.maximum(np.abs(chi[i]), np.abs(chi[i + 1]))
        y = np.maximum(np.abs(np.interp(x, tw, chi)), 1e-300)
        # ... and a unit round trip moves the abscissa by ~1 ulp: relative effect = logarithmic slope of the segment
        slope = np.abs(chi[i + 1] - chi[i]) / y * x / (tw[i + 1] - tw[i])
        return hi / y + 2 * slope
    return amp(q) + amp(0.55)[0]


def rel_tol(tw, chi, q, base=1e-12):
    return base + 4e-16 * interp_amplification(tw, chi, q)


def install(ctx):
    from sedfitter.extinction import Extinction

    def get_av_post(self, wav, result):
        ctx.event('Extinction.get_av:post')
        tw = to_um(self.wav)
        qw = to_um(wav) if isinstance(wav, u.Quantity) else None
        if tw is None or qw is None or np.ndim(qw) != 1:
            return True
        if np.any(np.diff(tw) <= 0) or not (tw[0] <= 0.55 <= tw[-1]):
            return True   # outside the quantifier (decreasing tables / not covering V)
        ref = O.ext_pattern(tw, np.asarray(self.chi.value, float), qw)
        res = np.asarray(result, float)
        if hasattr(result, 'unit') and str(getattr(result, 'unit', '')) not in ('', 'dimensionless'):
            ctx.violation('get_av:not-unit-free', 'extinction pattern carries a unit', {'unit': str(result.unit)})
        # don't-care: queries within 1e-12 relative of the table ends (unit round trips decide inside/outside)
        edge = (np.abs(qw - tw[0]) <= 1e-12 * tw[0]) | (np.abs(qw - tw[-1]) <= 1e-12 * tw[-1])
        ok = np.abs(res - ref) <= rel_tol(tw, self.chi.value, np.clip(qw, tw[0], tw[-1]), 1e-11) * np.abs(ref) + 1e-300
        bad = np.where(~ok & ~edge)[0]
        if res.shape != ref.shape:
            ctx.violation('get_av:shape', 'result shape differs from query shape', {'query': qw})
        elif bad.size:
            j = int(bad[0])
            out = qw[j] < tw[0] or qw[j] > tw[-1]
            ctx.violation('get_av:nonzero-outside-table' if out else 'get_av:wrong-value',
                          'extinction pattern is not -0.4 chi(lambda)/chi(0.55um) (0 outside the table)',
                          {'table_wav_um': tw, 'table_chi': self.chi.value, 'query_um': float(qw[j]), 'got': float(res[j]), 'expected': float(ref[j])})
        return True

    probe.attach(Extinction, 'get_av', ensure=get_av_post)


def run(ctx):
    rng = ctx.rng
    install(ctx)
    from sedfitter.extinction import Extinction
    ctx.rule = ('opacity tables with 2..200 rows in increasing wavelength covering 0.55um, opacities over 12 decades, in 5 wavelength units and 2 '
                'opacity units; queries inside/outside/on nodes/at V/at the ends in 5 length units; pairs: chi x c, unit changes; round trips '
                'pickle, table, text files with 2..6 columns and every column pair. a case = one (table, query set); non-trivial = >=1 inside query')
    ctx.assume('-0.4 at 0.55um within 4 ulp (the code computes (-0.4*chi)/chi)',
               'queries within 1e-12 relative of a table end: inside/outside is a don\'t-care; node queries are made in the table\'s own unit',
               'tables not covering V or not increasing are outside the quantifier')
    ctx.require_events('table:first-node-is-V', 'roundtrip:table-used-further-by-the-caller', 'query:same-length-and-ends-as-table', 'Extinction.get_av:post', 'pair:chi-scaling', 'pair:units', 'roundtrip:pickle', 'roundtrip:table',
                       'roundtrip:file', 'at-V', 'history:chi-reassigned', 'history:table-replaced', 'history:wav-reassigned', 'query:scalar', 'V-on-node', 'roundtrip:file-defaults', 'history:chi-scaled-with-augmented-assignment')
    ctx.require_regimes('opacities:many-decades-from-1', 'rows=2', 'rows>=100', 'query:outside', 'query:node', 'query:inside')
    n_tab = 150 if ctx.quick else 4000
    for it in range(n_tab):
        n = int(rng.choice([2, 3, 4, 8, 25, 100, 200]))
        lw, lc = gen.make_law_arrays(rng, n=n)
        lc = lc * 10.0 ** rng.uniform(-6, 6)
        if it % 5 == 2:
            # "any positive opacities": tables many decades away from 1 (per particle instead of per gram, SI versus cgs, ...)
            lc = lc * [1e-30, 1e-22, 1e-16, 1e20, 1e30][(it // 5) % 5]
            ctx.regime('opacities:many-decades-from-1')
        n = len(lw)
        ctx.regime('rows=2' if n == 2 else ('rows>=100' if n >= 100 else 'rows:mid'))
        un = str(rng.choice(list(LEN)))
        cn = str(rng.choice(list(CHI)))
        unit, fac = LEN[un]
        cunit, cfac = CHI[cn]
        tv = lw / fac                       # table values natively in `unit`
        tw_um = tv * fac                    # truth in micron (explicit factor)
        if not (tw_um[0] < 0.55 < tw_um[-1]) or np.any(np.diff(tv) <= 0):
            continue
        law = Extinction()
        law.wav = tv * unit
        law.chi = (lc / cfac) * cunit
        chi_native = lc / cfac
        wit = {'table_unit': un, 'chi_unit': cn, 'table_wav': tv, 'table_chi': chi_native}

        # queries
        qs_um = np.concatenate([gen.loguniform(rng, tw_um[0] * 1.001, tw_um[-1] * 0.999, 12),
                                tw_um[0] * 10.0 ** -rng.uniform(0.001, 3, 3), tw_um[-1] * 10.0 ** rng.uniform(0.001, 3, 3)])
        for qn in LEN:
            qunit, qfac = LEN[qn]
            qv = qs_um / qfac
            try:
                got = np.asarray(law.get_av(qv * qunit), float)
            except Exception as exc:
                ctx.raised(exc, 'get_av:raised', 'get_av raised on a length quantity: %r' % (exc,), dict(wit, query_unit=qn))
                continue
            q_um = qv * qfac
            ref = O.ext_pattern(tw_um, chi_native, q_um)
            inside = (q_um > tw_um[0]) & (q_um < tw_um[-1])
            ctx.regime('query:inside', int(inside.sum()))
            ctx.regime('query:outside', int((~inside).sum()))
            if np.any(got[~inside] != 0):
                ctx.violation('get_av:nonzero-outside-table', 'pattern is not 0 outside the tabulated range', dict(wit, query_unit=qn, query=qv[~inside], got=got[~inside]))
            if np.any(np.abs(got[inside] - ref[inside]) > rel_tol(tw_um, chi_native, q_um[inside], 1e-11) * np.abs(ref[inside])):
                ctx.violation('get_av:wrong-value', 'pattern differs from -0.4 chi/chi_V', dict(wit, query_unit=qn, query=qv, got=got, expected=ref))
        # nodes, in the table's own unit
        got = np.asarray(law.get_av(tv * unit), float)
        cv = O.lin_interp(list(tw_um), list(chi_native), 0.55)
        refn = -0.4 * chi_native / cv
        ctx.regime('query:node', n)
        if np.any(np.abs(got - refn) > rel_tol(tw_um, chi_native, tw_um) * np.abs(refn)):
            ctx.violation('get_av:wrong-value-at-node', 'pattern at a table node is not -0.4 chi_node/chi_V', dict(wit, got=got, expected=refn))
        # as many query wavelengths as the table has rows, the first and last on the end nodes, the others elsewhere (a regular grid
        # laid over an irregular table), in the table's own unit
        if n >= 3:
            qe = np.linspace(tv[0], tv[-1], n)
            qe[0], qe[-1] = tv[0], tv[-1]
            gote = np.asarray(law.get_av(qe * unit), float)
            refe = O.ext_pattern(tw_um, chi_native, qe * fac)
            refe[0], refe[-1] = refn[0], refn[-1]          # (the end nodes themselves: the node values)
            ctx.event('query:same-length-and-ends-as-table')
            if gote.shape != refe.shape or np.any(np.abs(gote - refe) > rel_tol(tw_um, chi_native, np.clip(qe * fac, tw_um[0], tw_um[-1]), 1e-11) * np.abs(refe) + 1e-300):
                ctx.violation('get_av:wrong-value', 'pattern differs from -0.4 chi/chi_V for a query with as many wavelengths as the table has rows and the same end points',
                              dict(wit, query_unit=un, query=qe, got=gote, expected=refe))
        # exactly -0.4 at V
        gv = float(np.asarray(law.get_av([0.55] * u.micron), float)[0])
        ctx.event('at-V')
        if abs(gv + 0.4) > 4 * np.spacing(0.4):
            ctx.violation('get_av:not-normalised-at-V', 'pattern at 0.55 micron is not -0.4', dict(wit, got=gv))
        ctx.case(('tab', it, ctx.shard), nontrivial=True, sample=dict(wit, at_V=gv) if n <= 4 else None)

        # a table that *starts* at V (an optical-to-infrared law), tabulated natively in Angstrom / nm / micron with its first node on
        # 5500 A / 550 nm / 0.55 micron exactly: chi(V) is the first node's opacity (a query at V itself sits on the table end, where
        # inside/outside is the don't-care of the assumptions; everything inside is judged)
        if it % 6 == 1:
            unV, Vnat = [('AA', 5500.0), ('nm', 550.0), ('um', 0.55)][(it // 6) % 3]
            unitV, facV = LEN[unV]
            keep_ = tw_um > 0.7
            if keep_.sum() >= 1:
                tvV = np.concatenate([[Vnat], tw_um[keep_] / facV])
                chiV = np.concatenate([[float(np.max(chi_native)) * 1.5], chi_native[keep_]])
                lawV = Extinction()
                lawV.wav = tvV * unitV
                lawV.chi = chiV * cunit
                twV_um = tvV * facV
                qV_um = gen.loguniform(rng, 0.56, twV_um[-1] * 0.999, 8)
                ctx.event('table:first-node-is-V')
                for qn in ('um', 'nm', 'AA'):
                    qunit, qfac = LEN[qn]
                    try:
                        gV = np.asarray(lawV.get_av((qV_um / qfac) * qunit), float)
                        gN = np.asarray(lawV.get_av(tvV * unitV), float)
                    except Exception as exc:
                        ctx.raised(exc, 'get_av:raised', 'get_av raised for a table whose first node is V: %r' % (exc,), {'table_unit': unV, 'table_wav': tvV})
                        break
                    refV = -0.4 * np.interp(qV_um, twV_um, chiV) / chiV[0]
                    refN = -0.4 * chiV / chiV[0]
                    if np.any(~np.isfinite(gV)) or np.any(np.abs(gV - refV) > (rel_tol(twV_um, chiV, qV_um, 1e-11) + 1e-10) * np.abs(refV)) or \
                            np.any(~np.isfinite(gN)) or np.any(np.abs(gN - refN) > 1e-11 * np.abs(refN)):
                        ctx.violation('get_av:wrong-value:table-starting-at-V', 'pattern differs from -0.4 chi/chi_V for a table whose first node is 0.55 micron',
                                      {'table_unit': unV, 'table_wav': tvV, 'table_chi': chiV, 'query_unit': qn, 'query_um': qV_um, 'got': gV, 'expected': refV,
                                       'got_at_nodes': gN, 'expected_at_nodes': refN})
                        break
        # refusals
        for badq in (qs_um, list(qs_um), 1.0, qs_um * u.Hz):
            try:           # (refusal of non-length input is not part of the statement: observed, not judged)
                law.get_av(badq)
            except Exception:
                ctx.event('refused:non-quantity')
            else:
                ctx.event('accepted:non-length-query')

        q = (qs_um[:12] / fac) * unit
        base = np.asarray(law.get_av(q), float)
        # chi x c
        c = float(10.0 ** rng.uniform(-8, 8)) if it % 5 != 3 else [1e-30, 1e-20, 1e25][(it // 5) % 3]
        law2 = Extinction()
        law2.wav = tv * unit
        law2.chi = (chi_native * c) * cunit
        g2 = np.asarray(law2.get_av(q), float)
        ctx.event('pair:chi-scaling')
        if np.any(np.abs(g2 - base) > rel_tol(tw_um, chi_native, qs_um[:12], 1e-12) * np.abs(base)):
            ctx.violation('get_av:depends-on-opacity-scale', 'multiplying chi by a constant changed the pattern', dict(wit, c=c, before=base, after=g2))
        # a scalar (0-d) query, also in another unit than the table's
        for qn in ('um', 'nm', 'mm'):
            q0 = float(qs_um[int(rng.integers(12))])
            qq = {'um': q0 * u.micron, 'nm': q0 * 1e3 * u.nm, 'mm': q0 * 1e-3 * u.mm}[qn]
            try:
                g0 = np.asarray(law.get_av(qq), float).reshape(-1)
            except Exception as exc:
                ctx.event('query:scalar-refused')
                continue
            ctx.event('query:scalar')
            r0 = float(O.ext_pattern(tw_um, chi_native, [q0])[0])
            if g0.size != 1 or abs(g0[0] - r0) > float(np.ravel(rel_tol(tw_um, chi_native, np.array([q0]), 1e-11))[0]) * abs(r0):
                ctx.violation('get_av:wrong-value:scalar-query', 'a scalar query gives another value than the same wavelength in an array', dict(wit, query=str(qq), got=g0, expected=r0))
        # 0.55 micron exactly on a node of the table
        if n >= 3 and un == 'um':
            twv = np.sort(np.unique(np.concatenate([tw_um, [0.55]])))
            cv_ = np.interp(twv, tw_um, chi_native) * np.where(twv == 0.55, 1.7, 1.0)
            lawv = Extinction()
            lawv.wav = twv * u.micron
            lawv.chi = cv_ * cunit
            gv_ = np.asarray(lawv.get_av(twv * u.micron), float)
            ctx.event('V-on-node')
            refv = -0.4 * cv_ / cv_[list(twv).index(0.55)]
            if np.any(np.abs(gv_ - refv) > 1e-12 * np.abs(refv)):
                ctx.violation('get_av:wrong-value-at-node', 'with 0.55 micron on a node the pattern is not -0.4 chi/chi_node', dict(wit, got=gv_, expected=refv))
        # the same object with its table re-assigned (history): the pattern must follow the *current* table
        # (the post-condition contract evaluates the oracle on the object's table at call time)
        law_h = Extinction()
        law_h.wav = tv * unit
        law_h.chi = chi_native * cunit
        law_h.get_av(q)
        if it % 2:
            law_h.chi = (chi_native * c) * cunit
        else:
            law_h.chi *= c          # augmented assignment: the same array object, scaled in place and assigned back
            ctx.event('history:chi-scaled-with-augmented-assignment')
        gh = np.asarray(law_h.get_av(q), float)
        ctx.event('history:chi-reassigned')
        if np.any(np.abs(gh - base) > rel_tol(tw_um, chi_native, qs_um[:12], 1e-12) * np.abs(base)):
            ctx.violation('get_av:stale-after-chi-reassigned', 're-assigning chi on an object that was already evaluated gives a pattern that is not that of the new table',
                          dict(wit, c=c, before=base, after=gh))
        # only the wavelengths re-assigned (same length): e.g. the table converted to another unit, or corrected wavelengths
        law_w = Extinction()
        law_w.wav = tv * unit
        law_w.chi = chi_native * cunit
        law_w.get_av(q)
        shift = 1.0 + 0.02 * rng.random()
        new_um = tw_um * shift
        if new_um[0] < 0.55 < new_um[-1]:
            law_w.wav = (new_um * u.micron).to(u.nm)
            gw = np.asarray(law_w.get_av(q), float)
            refw = O.ext_pattern(new_um, chi_native, qs_um[:12])
            ctx.event('history:wav-reassigned')
            okw = np.abs(gw - refw) <= rel_tol(new_um, chi_native, np.clip(qs_um[:12], new_um[0], new_um[-1]), 1e-11) * np.abs(refw) + 1e-300
            edge_w = (np.abs(qs_um[:12] - new_um[0]) < 1e-9 * new_um[0]) | (np.abs(qs_um[:12] - new_um[-1]) < 1e-9 * new_um[-1])
            if np.any(~okw & ~edge_w):
                ctx.violation('get_av:stale-after-wav-reassigned', 're-assigning the wavelengths of an object that was already evaluated gives a pattern that is not that of the new table',
                              dict(wit, got=gw, expected=refw))
        lw2, lc2 = gen.make_law_arrays(rng, n=int(rng.choice([2, 5, 30])))
        if lw2[0] < 0.55 < lw2[-1]:
            law_h.wav = None
            law_h.chi = None
            law_h.wav = lw2 * u.micron
            law_h.chi = lc2 * u.cm ** 2 / u.g
            q2 = gen.loguniform(rng, lw2[0] * 1.001, lw2[-1] * 0.999, 6) * u.micron
            gh2 = np.asarray(law_h.get_av(q2), float)
            ref2 = O.ext_pattern(lw2, lc2, q2.value)
            ctx.event('history:table-replaced')
            if np.any(np.abs(gh2 - ref2) > 1e-11 * np.abs(ref2)):
                ctx.violation('get_av:stale-after-table-replaced', 'replacing the table of an object that was already evaluated gives a stale pattern', dict(wit, got=gh2, expected=ref2))
        # other units for the table
        for un2 in LEN:
            for cn2 in CHI:
                u2, f2 = LEN[un2]
                cu2, cf2 = CHI[cn2]
                law3 = Extinction()
                law3.wav = (tw_um / f2) * u2
                law3.chi = (lc / cf2) * cu2
                g3 = np.asarray(law3.get_av(q), float)
                ctx.event('pair:units')
                if np.any(np.abs(g3 - base) > 1e-11 * np.abs(base)):
                    ctx.violation('get_av:depends-on-units', 'expressing the table in other units changed the pattern',
                                  dict(wit, table_unit2=un2, chi_unit2=cn2, before=base, after=g3))
        # round trips
        try:
            lp = pickle.loads(pickle.dumps(law, 2))
            ctx.event('roundtrip:pickle')
            tb_ = law.to_table()
            lt = Extinction.from_table(tb_)
            ctx.event('roundtrip:table')
            if it % 2 == 0:
                # the caller goes on using the table the law was made from (whole-column / whole-table operations: another unit for a
                # second law, another row order): the first law must not follow
                tb_['wav'].convert_unit_to(u.nm if tb_['wav'].unit != u.nm else u.micron)
                lt2_ = Extinction.from_table(tb_)
                g2_ = np.asarray(lt2_.get_av(q), float)
                if not np.all(np.abs(g2_ - base) <= rel_tol(tw_um, chi_native, qs_um[:12], 1e-11) * np.abs(base)):
                    ctx.violation('roundtrip:table-changes-law', 'a law made from the same table after its wavelength column was converted to another unit differs',
                                  dict(wit, before=base, after=g2_))
                tb_.reverse()
                tb_.sort('chi')
                ctx.event('roundtrip:table-used-further-by-the-caller')
        except Exception as exc:
            ctx.raised(exc, 'roundtrip:raised', 'pickle/table round trip raised: %r' % (exc,), wit)
            lp = lt = None
        for label, l2 in (('pickle', lp), ('table', lt)):
            if l2 is None:
                continue
            g = np.asarray(l2.get_av(q), float)
            if not np.all(np.abs(g - base) <= rel_tol(tw_um, chi_native, qs_um[:12]) * np.abs(base)):
                ctx.violation('roundtrip:%s-changes-law' % label, 'law changed through %s' % label, dict(wit, before=base, after=g))
        # text file reader: 2..6 columns, every ordered column pair (sampled)
        ncol = int(rng.integers(2, 7))
        cw, cc = [int(x) for x in rng.choice(ncol, 2, replace=False)]
        path = os.path.join(ctx.scratch, 'law_%d.txt' % it)
        with open(path, 'w') as f:
            f.write('# extinction law\n')
            for a, b in zip(tv, chi_native):
                row = [repr(float(x)) for x in rng.uniform(0.1, 9, ncol)]
                row[cw], row[cc] = repr(float(a)), repr(float(b))
                f.write(' '.join(row) + '\n')
        try:
            lf = Extinction.from_file(path, columns=(cw, cc), wav_unit=unit, chi_unit=cunit)
            gf = np.asarray(lf.get_av(q), float)
            ctx.event('roundtrip:file')
            if not np.all(np.abs(gf - base) <= rel_tol(tw_um, chi_native, qs_um[:12]) * np.abs(base)):
                ctx.violation('roundtrip:file-changes-law', 'law read from a text file differs', dict(wit, columns=(cw, cc), ncol=ncol, before=base, after=gf))
        except Exception as exc:
            ctx.raised(exc, 'roundtrip:file-raised', 'from_file raised: %r' % (exc,), dict(wit, columns=(cw, cc), ncol=ncol))
        os.remove(path)
        if it % 5 == 0:
            # default arguments of the reader: columns (0,1), micron, cm^2/g (the table is written out in micron for this)
            with open(path, 'w') as f:
                for a, b in zip(tw_um, chi_native):
                    f.write('%r %r\n' % (float(a), float(b)))
            lf = Extinction.from_file(path)
            ctx.event('roundtrip:file-defaults')
            if not np.all(np.abs(np.asarray(lf.get_av(q), float) - base) <= rel_tol(tw_um, chi_native, qs_um[:12]) * np.abs(base)):
                ctx.violation('roundtrip:file-changes-law', 'law read with default reader arguments differs', wit)
            os.remove(path)


def replay(ctx, rec):
    ctx.inconclusive('replay: re-run ./check C14 with VERIF_SEED=%s; the witness holds the literal table' % rec.get('seed'))
