"""C12 — SED, cube and convolved-flux files read back exactly what was stored.

write -> read round trips over the configuration matrix (axis order x read order x flux
unit x apertures present/absent x uncertainties present/absent x memmap), with
position-encoding values so that any re-labelling shows; post-condition contracts on the
three readers (spectral axis monotone as requested, wav*nu = c, shapes) fire on every read.
"""
import itertools
import os

import numpy as np
from astropy import units as u
from astropy.io import fits

from .. import gen, pkg, probe
from .. import oracles as O

SHARDS = {'quick': 4, 'thorough': 16, 'quick_timeout': 900, 'thorough_timeout': 3600}

FLUX_UNITS = {'mJy': u.mJy, 'Jy': u.Jy, 'erg/cm2/s': u.erg / u.cm ** 2 / u.s, 'erg/s': u.erg / u.s}
C_UM_HZ = pkg.C_UM_HZ


def install(ctx):
    from sedfitter.sed import SED, SEDCube

    def check_axis(kind, obj, order, wit):
        wav = np.asarray(obj.wav.to(u.micron).value, float)
        nu = np.asarray(obj.nu.to(u.Hz).value, float)
        if wav.shape != nu.shape or np.any(np.abs(wav * nu / C_UM_HZ - 1) > 1e-6):
            ctx.violation('read:%s:wav-nu-inconsistent' % kind, 'wavelengths and frequencies returned by the reader do not belong together', wit)
        if len(wav) > 1:
            inc = np.all(np.diff(nu) > 0) if order == 'nu' else np.all(np.diff(wav) > 0)
            if not inc:
                ctx.violation('read:%s:order-not-honoured' % kind, 'spectral axis is not in the requested order', dict(wit, order=order))

    def sed_read_post(cls, filename, unit_wav, unit_freq, unit_flux, order, result):
        ctx.event('SED.read:post')
        check_axis('sed', result, order, {'file': os.path.basename(filename)})
        return True

    def cube_read_post(cls, filename, order, memmap, result):
        ctx.event('SEDCube.read:post')
        check_axis('cube', result, order, {'file': os.path.basename(filename)})
        if result.val.shape != (result.n_models, result.n_ap, result.n_wav):
            ctx.violation('read:cube:shape', 'cube values have the wrong shape', {'shape': result.val.shape})
        return True

    probe.attach(SED, 'read', ensure=sed_read_post)
    from sedfitter.sed.cube import BaseCube
    probe.attach(BaseCube, 'read', ensure=cube_read_post)


def encode(n_m, n_a, wav_asc, rng):
    """value[m, a, w] encodes (model, aperture, wavelength rank); wav ascending"""
    n_w = len(wav_asc)
    v = (np.arange(1, n_m + 1)[:, None, None] * 1e4 + np.arange(1, n_a + 1)[None, :, None] * 1e2 +
         np.arange(1, n_w + 1)[None, None, :]) + rng.uniform(0, 0.5, (n_m, n_a, n_w))
    return v * 10.0 ** rng.uniform(-3, 3)


def reversal(a, b, rtol=1e-13):
    """b is a with the last axis reversed (to rounding: the other order may be derived rather than flipped)"""
    a = np.asarray(a, float)[..., ::-1]
    b = np.asarray(b, float)
    return a.shape == b.shape and bool(np.all(np.abs(a - b) <= rtol * np.abs(a)))


def lookup(wav_asc, table_asc, wav_got):
    """for each returned wavelength, the stored column index (by value)"""
    idx = []
    for w in wav_got:
        j = int(np.argmin(np.abs(wav_asc - w)))
        if abs(wav_asc[j] - w) > 1e-9 * w:
            return None
        idx.append(j)
    return np.array(idx)


def run(ctx):
    rng = ctx.rng
    install(ctx)
    from sedfitter.sed import SED, SEDCube
    from sedfitter.convolved_fluxes import ConvolvedFluxes
    ctx.rule = ('configuration matrix {SED, cube, convolved} x spectral axis supplied ascending/descending in wavelength x read order nu/wav x 4 flux '
                'units x apertures present/absent x uncertainties present/absent x memmap on/off, sizes 1..6 x 1..5 x 2..40 with position-encoding '
                'values; cell-wise comparison by wavelength value. a case = one write+read; non-trivial = n_wav>=2 (SED/cube) or n_models>=2 (convolved)')
    ctx.assume('SED files materialise a single dummy aperture when none is set (by design): values are compared, not the dummy',
               'model names have at most 30 characters (the documented column format is 30A; longer names are truncated by the convolved-flux writer)',
               'values compared with rtol 1e-12 (erg/s goes through /d^2 * d^2)', 'float64 arrays (what the objects hold) are stored as float64')
    ctx.require_events('SED.read:post', 'SEDCube.read:post', 'roundtrip:sed', 'roundtrip:cube', 'roundtrip:convolved', 'cube:get_sed', 'roundtrip:sed-object-reused', 'roundtrip:cube-object-reused', 'roundtrip:sed-other-unit', 'cube:get_sed-after-values-reassigned')
    ctx.require_regimes('cells:exactly-zero', 'sed:asc', 'sed:desc', 'cube:asc', 'cube:desc', 'cube:no-unc', 'cube:no-apertures', 'cube:memmap',
                        'convolved:no-apertures', 'unit:erg/s', 'unit:Jy', 'cube:valid-flags', 'convolved:error-in-another-unit', 'cube:unc-in-another-unit', 'sed:error-in-another-unit', 'cube:axis-unit:nm', 'cube:axis-unit:GHz', 'cube:axis-unit:mm', 'sed:axis-unit:nm', 'sed:axis-unit:GHz', 'sed:axis-unit:mm')
    cfg = list(itertools.product(['asc', 'desc'], ['nu', 'wav'], list(FLUX_UNITS), [True, False], [True, False], [True, False]))
    reps = 1 if ctx.quick else 20
    d = ctx.newdir('c12')
    ic = 0
    for rep in range(reps):
        for (axis, order, fu, with_ap, with_unc, memmap) in cfg:
            ic += 1
            if not ctx.mine(ic):
                continue
            funit = FLUX_UNITS[fu]
            n_m = int(rng.integers(1, 7))
            n_a = int(rng.integers(1, 6)) if with_ap else 1
            n_w = int(rng.choice([2, 3, 5, 12, 40]))
            wav_asc = np.sort(gen.loguniform(rng, 0.05, 3000.0, n_w))
            while np.any(np.diff(wav_asc) <= 1e-6 * wav_asc[:-1]):
                wav_asc = np.sort(gen.loguniform(rng, 0.05, 3000.0, n_w))
            val = encode(n_m, n_a, wav_asc, rng)
            unc = val * 0.01 * (1 + np.arange(n_w))[None, None, :] / n_w
            if ic % 4 == 1:
                # cells whose value is exactly zero (no emission at that wavelength) with a non-zero uncertainty, and cells with a
                # zero uncertainty: "the same value for every cell" includes them
                zc = rng.random(val.shape) < 0.15
                zc[0, 0, 0] = True
                val = np.where(zc, 0.0, val)
                zu = (rng.random(val.shape) < 0.1) & ~zc
                unc = np.where(zu, 0.0, unc)
                ctx.regime('cells:exactly-zero')
            aps = gen.aperture_table(rng, n_a) if with_ap else None
            sl = slice(None) if axis == 'asc' else slice(None, None, -1)
            apu = [u.au, u.pc, u.cm][int(rng.integers(3))]      # length unit the apertures are supplied in
            wav_in = wav_asc[sl]
            ctx.regime('unit:' + fu)
            wit0 = dict(axis=axis, order=order, unit=fu, aperture_unit=str(apu), apertures=with_ap, unc=with_unc, memmap=memmap, n=(n_m, n_a, n_w), wav=wav_in)

            # ---------------- SED ----------------
            if with_unc:        # SED.write requires errors
                s = SED()
                s.name = 'enc_model'
                s.distance = float(gen.loguniform(rng, 0.1, 30.0)) * u.kpc
                sps = int(rng.integers(5))      # how the spectral axis of the SED is supplied
                if sps == 0:
                    s.wav = wav_in * u.micron
                elif sps == 1:
                    s.wav = (wav_in * u.micron).to(u.nm)
                elif sps == 2:
                    s.wav = (wav_in * u.micron).to(u.mm)
                elif sps == 3:
                    s.nu = (C_UM_HZ / wav_in) * u.Hz
                else:
                    s.nu = ((C_UM_HZ / wav_in) * u.Hz).to(u.GHz)
                ctx.regime('sed:axis-unit:' + ('micron', 'nm', 'mm', 'Hz', 'GHz')[sps])
                if with_ap:
                    s.apertures = (aps * u.au).to(apu)
                s.flux = val[0][:, sl] * funit
                s.error = unc[0][:, sl] * funit
                if fu in ('mJy', 'Jy') and ic % 2 == 1:
                    s.error = (unc[0][:, sl] * funit).to(u.Jy if fu == 'mJy' else u.mJy)
                    ctx.regime('sed:error-in-another-unit')
                path = os.path.join(d, 'sed_%d.fits' % ic)
                ok = True
                try:
                    s.write(path)
                    r = SED.read(path, unit_flux=funit, order=order)
                except Exception as exc:
                    ctx.raised(exc, 'sed:roundtrip-raised:%s' % type(exc).__name__, 'SED write/read raised: %r' % (exc,), dict(wit0, kind='sed'))
                    ok = False
                if ok:
                    ctx.event('roundtrip:sed')
                    ctx.regime('sed:' + axis)
                    got_w = np.asarray(r.wav.to(u.micron).value, float)
                    idx = lookup(wav_asc, None, got_w)
                    if idx is None or sorted(idx.tolist()) != list(range(n_w)):
                        ctx.violation('sed:wavelengths-changed', 'wavelengths read back are not the ones stored', dict(wit0, got=got_w))
                    else:
                        gf = np.asarray(r.flux.to(funit).value, float)
                        ge = np.asarray(r.error.to(funit).value, float)
                        if gf.shape != (n_a, n_w) or not O.close(gf, val[0][:, idx], 1e-12) or not O.close(ge, unc[0][:, idx], 1e-12):
                            ctx.violation('sed:cells-relabelled:%s' % axis, 'a value read back is not the one stored for that (aperture, wavelength)',
                                          dict(wit0, kind='sed', stored_first_ap=val[0][0], wav_stored_asc=wav_asc, wav_got=got_w, got_first_ap=gf[0] if gf.ndim == 2 else gf))
                        if r.name != 'enc_model' or abs(r.distance.to(u.kpc).value / s.distance.value - 1) > 1e-12:
                            ctx.violation('sed:metadata', 'name/distance changed', dict(wit0, name=r.name))
                        if with_ap and not O.close(r.apertures.to(u.au).value, aps, 1e-12):
                            ctx.violation('sed:apertures', 'apertures changed', dict(wit0, got=r.apertures))
                        if r.flux.unit != funit:
                            ctx.violation('sed:unit', 'flux unit not preserved/convertible', dict(wit0, got=str(r.flux.unit)))
                        # the other order is the exact reversal of everything together
                        other = 'wav' if order == 'nu' else 'nu'
                        r2 = SED.read(path, unit_flux=funit, order=other)
                        same = all(reversal(getattr(r, k).value, getattr(r2, k).to(getattr(r, k).unit).value) for k in ('wav', 'nu', 'flux', 'error'))
                        if not same:
                            ctx.violation('sed:other-order-not-reversal', 'requesting the other order is not the reversal of wav, nu, flux, error together', wit0)
                        # the same cells requested in a brightness unit of another kind (per frequency <-> integrated <-> luminosity):
                        # every cell must be converted with its own frequency, in either order
                        from .c15 import to_base, from_base
                        fu2 = str(rng.choice([x for x in FLUX_UNITS if x != fu]))
                        d_cm = float(s.distance.to(u.cm).value)
                        for od in ('nu', 'wav'):
                            r3 = SED.read(path, unit_flux=FLUX_UNITS[fu2], order=od)
                            w3 = np.asarray(r3.wav.to(u.micron).value, float)
                            i3 = lookup(wav_asc, None, w3)
                            ctx.event('roundtrip:sed-other-unit')
                            if i3 is None:
                                ctx.violation('sed:wavelengths-changed', 'wavelengths read back are not the ones stored', dict(wit0, got=w3, read_unit=fu2))
                                continue
                            nu_cell = C_UM_HZ / wav_asc[i3]
                            exp3 = from_base(fu2, to_base(fu, val[0][:, i3], nu_cell[None, :], d_cm), nu_cell[None, :], d_cm)
                            g3 = np.asarray(r3.flux.to(FLUX_UNITS[fu2]).value, float)
                            if g3.shape != exp3.shape or not O.close(g3, exp3, 1e-9):
                                ctx.violation('sed:cells-relabelled:other-unit', 'read in another brightness unit, a value is not the stored one for that (aperture, wavelength)',
                                              dict(wit0, kind='sed', read_unit=fu2, read_order=od, got_first_ap=g3[0] if g3.ndim == 2 else g3, expected_first_ap=exp3[0]))
                    ctx.case(('sed', ic, ctx.shard), nontrivial=True, sample=dict(wit0, kind='sed') if ic < 40 else None)
                    os.remove(path)

            # ---------------- SED object re-used with another spectral axis of the same length ----------------
            if with_unc and ic % 2 == 0:
                s2 = SED()
                s2.name = 'reused'
                s2.distance = 1.0 * u.kpc
                ok2 = True
                for use in range(3):
                    ax = wav_asc * (1 + 0.07 * use) if use != 1 else (wav_asc * 1.03)[::-1]      # same length, other values/order
                    s2.flux = None
                    s2.error = None
                    if use % 2 == 0:
                        s2.nu = None
                        s2.wav = ax * u.micron
                    else:
                        s2.wav = None
                        s2.nu = (C_UM_HZ / ax) * u.Hz
                    vv = encode(1, n_a, np.sort(ax), rng)[0]
                    order_ax = np.argsort(ax)
                    if with_ap:
                        s2.apertures = (aps * u.au).to(apu)
                    fl_in = np.empty_like(vv)
                    fl_in[:, order_ax] = vv                      # value for the k-th smallest wavelength sits where that wavelength is
                    s2.flux = fl_in * funit
                    s2.error = fl_in * 0.03 * funit
                    path2 = os.path.join(d, 'sedre_%d_%d.fits' % (ic, use))
                    try:
                        s2.write(path2)
                        r = SED.read(path2, unit_flux=funit, order=order)
                    except Exception as exc:
                        ctx.raised(exc, 'sed:roundtrip-raised:%s' % type(exc).__name__, 'SED write/read raised on a re-used object: %r' % (exc,), dict(wit0, kind='sed-reused', use=use))
                        break
                    ctx.event('roundtrip:sed-object-reused')
                    got_w = np.asarray(r.wav.to(u.micron).value, float)
                    got_nu = np.asarray(r.nu.to(u.Hz).value, float)
                    idx = lookup(np.sort(ax), None, got_w)
                    gf = np.asarray(r.flux.to(funit).value, float)
                    if idx is None or sorted(idx.tolist()) != list(range(n_w)) or np.any(np.abs(got_w * got_nu / C_UM_HZ - 1) > 1e-9) or \
                            gf.shape != (n_a, n_w) or not O.close(gf, vv[:, idx], 1e-12):
                        ctx.violation('sed:reused-object-stale-axis', 'an SED object whose spectral axis was re-assigned does not read back what was stored (stale wavelengths/frequencies)',
                                      dict(wit0, kind='sed-reused', use=use, wav_in=ax, wav_got=got_w, nu_got=got_nu))
                        break
                    os.remove(path2)
                ctx.case(('sedre', ic, ctx.shard), nontrivial=True)

            # ---------------- cube ----------------
            c = SEDCube()
            c.names = np.array(rng.permutation(['m%d' % (i * 7 + 1) for i in range(n_m)]))      # not in lexical order
            c.distance = float(gen.loguniform(rng, 0.1, 30.0)) * u.kpc
            sp = int(rng.integers(5))      # how the spectral axis is supplied
            if sp == 0:
                c.wav = wav_in * u.micron
            elif sp == 1:
                c.wav = (wav_in * u.micron).to(u.nm)
            elif sp == 2:
                c.wav = (wav_in * u.micron).to(u.mm)
            elif sp == 3:
                c.nu = (C_UM_HZ / wav_in) * u.Hz
            else:
                c.nu = ((C_UM_HZ / wav_in) * u.Hz).to(u.GHz)
            ctx.regime('cube:axis-unit:' + ('micron', 'nm', 'mm', 'Hz', 'GHz')[sp])
            if with_ap:
                c.apertures = (aps * u.au).to(apu)
            c.val = val[:, :, sl] * funit
            if with_unc:
                c.unc = unc[:, :, sl] * funit
                if fu in ('mJy', 'Jy') and ic % 2 == 1:
                    # uncertainties stored in another unit than the values
                    c.unc = (unc[:, :, sl] * funit).to(u.Jy if fu == 'mJy' else u.mJy)
                    ctx.regime('cube:unc-in-another-unit')
            valid_in = None
            if n_m >= 2 and rng.random() < 0.5:
                valid_in = rng.random(n_m) < 0.6
                c.valid = valid_in
                ctx.regime('cube:valid-flags')
            path = os.path.join(d, 'cube_%d.fits' % ic)
            ok = True
            try:
                c.write(path)
                r = SEDCube.read(path, order=order, memmap=memmap)
            except Exception as exc:
                ctx.raised(exc, 'cube:roundtrip-raised:%s' % type(exc).__name__, 'cube write/read raised: %r' % (exc,), dict(wit0, kind='cube'))
                ok = False
            if ok:
                ctx.event('roundtrip:cube')
                ctx.regime('cube:' + axis)
                if not with_unc:
                    ctx.regime('cube:no-unc')
                if not with_ap:
                    ctx.regime('cube:no-apertures')
                if memmap:
                    ctx.regime('cube:memmap')
                got_w = np.asarray(r.wav.to(u.micron).value, float)
                idx = lookup(wav_asc, None, got_w)
                if idx is None or sorted(idx.tolist()) != list(range(n_w)):
                    ctx.violation('cube:wavelengths-changed', 'wavelengths read back are not the ones stored', dict(wit0, got=got_w))
                else:
                    gv = np.asarray(r.val.to(funit).value, float)
                    if gv.shape != (n_m, n_a, n_w) or not O.close(gv, val[:, :, idx], 1e-12):
                        ctx.violation('cube:cells-relabelled:%s' % axis, 'a value read back is not the one stored for that (model, aperture, wavelength)',
                                      dict(wit0, kind='cube', wav_got=got_w))
                    if with_unc:
                        if r.unc is None or not O.close(np.asarray(r.unc.to(funit).value, float), unc[:, :, idx], 1e-12):
                            ctx.violation('cube:unc-relabelled', 'an uncertainty read back is not the one stored', dict(wit0, kind='cube'))
                    elif r.unc is not None:
                        ctx.violation('cube:unc-appeared', 'absent uncertainties did not stay absent', wit0)
                    if with_ap:
                        if r.apertures is None or not O.close(r.apertures.to(u.au).value, aps, 1e-12):
                            ctx.violation('cube:apertures', 'apertures changed', wit0)
                    elif r.apertures is not None:
                        ctx.violation('cube:apertures-appeared', 'absent apertures did not stay absent', wit0)
                    if list(r.names) != list(c.names):
                        ctx.violation('cube:names', 'model names changed', dict(wit0, got=list(r.names)))
                    if abs(r.distance.to(u.kpc).value / c.distance.to(u.kpc).value - 1) > 1e-12:
                        ctx.violation('cube:distance', 'distance changed', dict(wit0, got=str(r.distance)))
                    if valid_in is not None and list(np.asarray(r.valid, bool)) != list(valid_in):
                        ctx.violation('cube:valid-flags', 'per-model validity flags read back differ from the ones stored', dict(wit0, stored=valid_in, got=r.valid))
                    other = 'wav' if order == 'nu' else 'nu'
                    r2 = SEDCube.read(path, order=other, memmap=memmap)
                    same = reversal(r.wav.value, r2.wav.to(r.wav.unit).value) and reversal(r.nu.value, r2.nu.to(r.nu.unit).value) and \
                        reversal(r.val.value, r2.val.to(r.val.unit).value) and \
                        (r.unc is None) == (r2.unc is None) and (r.unc is None or reversal(r.unc.value, r2.unc.to(r.unc.unit).value))
                    if not same:
                        ctx.violation('cube:other-order-not-reversal', 'requesting the other order is not the reversal of the spectral axis only', wit0)
                    # extraction of one model
                    mi = int(rng.integers(n_m))
                    try:
                        s1 = r.get_sed(str(c.names[mi]))
                        ctx.event('cube:get_sed')
                        gf = np.asarray(s1.flux.to(funit).value, float)
                        sw = np.asarray(s1.wav.to(u.micron).value, float)
                        if sw.shape != got_w.shape or not O.close(sw, got_w, 1e-13) or not O.close(gf, val[mi][:, idx], 1e-12) or s1.name != str(c.names[mi]):
                            ctx.violation('cube:get_sed-wrong-slice', 'extracting one model does not give the SED that was put in', dict(wit0, model=mi))
                        if s1.distance is None or abs(s1.distance.to(u.kpc).value / c.distance.to(u.kpc).value - 1) > 1e-12:
                            ctx.violation('cube:get_sed-distance', 'the extracted SED does not carry the distance the cube was stored with', dict(wit0, model=mi, got=str(s1.distance)))
                        if with_ap and (s1.apertures is None or not O.close(s1.apertures.to(u.au).value, aps, 1e-12)):
                            ctx.violation('cube:get_sed-apertures', 'the extracted SED does not carry the cube\'s apertures', dict(wit0, model=mi))
                        if with_unc and not O.close(np.asarray(s1.error.to(funit).value, float), unc[mi][:, idx], 1e-12):
                            ctx.violation('cube:get_sed-wrong-slice', 'extracted uncertainties differ', dict(wit0, model=mi))
                    except Exception as exc:
                        ctx.raised(exc, 'cube:get_sed-raised:%s' % ('no-unc' if not with_unc else 'other'),
                                      'get_sed raised: %r' % (exc,), dict(wit0, model=mi))
                ctx.case(('cube', ic, ctx.shard), nontrivial=True)
                del r
                os.remove(path)

            # ---------------- cube object re-used with another spectral axis of the same length ----------------
            if ic % 3 == 0:
                c2 = SEDCube()
                c2.names = np.array(['r%d' % i for i in range(n_m)])
                c2.distance = 1.0 * u.kpc
                for use in range(3):
                    ax = wav_asc * (1 + 0.07 * use) if use != 1 else (wav_asc * 1.03)[::-1]
                    c2.val = None
                    c2.unc = None
                    if use % 2 == 0:
                        c2.nu = None
                        c2.wav = ax * u.micron
                    else:
                        c2.wav = None
                        c2.nu = (C_UM_HZ / ax) * u.Hz
                    vv = encode(n_m, n_a, np.sort(ax), rng)
                    order_ax = np.argsort(ax)
                    if with_ap:
                        c2.apertures = (aps * u.au).to(apu)
                    v_in = np.empty_like(vv)
                    v_in[:, :, order_ax] = vv
                    c2.val = v_in * funit
                    if with_unc:
                        c2.unc = v_in * 0.03 * funit
                    path2 = os.path.join(d, 'cubere_%d_%d.fits' % (ic, use))
                    try:
                        c2.write(path2)
                        r = SEDCube.read(path2, order=order, memmap=False)
                    except Exception as exc:
                        ctx.raised(exc, 'cube:roundtrip-raised:%s' % type(exc).__name__, 'cube write/read raised on a re-used object: %r' % (exc,), dict(wit0, kind='cube-reused', use=use))
                        break
                    ctx.event('roundtrip:cube-object-reused')
                    got_w = np.asarray(r.wav.to(u.micron).value, float)
                    got_nu = np.asarray(r.nu.to(u.Hz).value, float)
                    idx = lookup(np.sort(ax), None, got_w)
                    gv = np.asarray(r.val.to(funit).value, float)
                    if idx is None or sorted(idx.tolist()) != list(range(n_w)) or np.any(np.abs(got_w * got_nu / C_UM_HZ - 1) > 1e-9) or \
                            gv.shape != (n_m, n_a, n_w) or not O.close(gv, vv[:, :, idx], 1e-12):
                        ctx.violation('cube:reused-object-stale-axis', 'a cube object whose spectral axis was re-assigned does not read back what was stored (stale wavelengths/frequencies)',
                                      dict(wit0, kind='cube-reused', use=use, wav_in=ax, wav_got=got_w, nu_got=got_nu))
                        break
                    del r
                    os.remove(path2)
                ctx.case(('cubere', ic, ctx.shard), nontrivial=True)

            # ---------------- in-memory cube: one model extracted, the values re-assigned, extracted again ----------------
            if ic % 3 == 1:
                c3 = SEDCube()
                c3.names = np.array(['x%d' % (i * 3 + 1) for i in range(n_m)][::-1])
                c3.distance = 2.0 * u.kpc
                c3.wav = wav_in * u.micron
                if with_ap:
                    c3.apertures = (aps * u.au).to(apu)
                ok3 = True
                for use in range(2):
                    vv = encode(n_m, n_a, wav_asc, rng)
                    c3.val = vv[:, :, sl] * funit
                    if with_unc:
                        c3.unc = vv[:, :, sl] * 0.07 * funit
                    mi = int(rng.integers(n_m))
                    try:
                        s3 = c3.get_sed(str(c3.names[mi]))
                    except Exception as exc:
                        ctx.raised(exc, 'cube:get_sed-raised:%s' % ('no-unc' if not with_unc else 'other'), 'get_sed raised on an in-memory cube: %r' % (exc,), dict(wit0, model=mi, use=use))
                        break
                    ctx.event('cube:get_sed-after-values-reassigned')
                    w3 = np.asarray(s3.wav.to(u.micron).value, float)
                    i3 = lookup(wav_asc, None, w3)
                    g3 = np.asarray(s3.flux.to(funit).value, float)
                    if i3 is None or g3.shape != (n_a, n_w) or not O.close(g3, vv[mi][:, i3], 1e-12) or \
                            (with_unc and not O.close(np.asarray(s3.error.to(funit).value, float), vv[mi][:, i3] * 0.07, 1e-12)):
                        ctx.violation('cube:get_sed-wrong-slice' if use == 0 else 'cube:get_sed-stale-after-values-reassigned',
                                      'extracting one model does not give the SED that is in the cube' + (' after its values were re-assigned' if use else ''),
                                      dict(wit0, model=mi, use=use))
                        break
                ctx.case(('cubemem', ic, ctx.shard), nontrivial=True)

            # ---------------- convolved fluxes ----------------
            cf = ConvolvedFluxes()
            cf.central_wavelength = (float(wav_asc[0]) * u.micron).to([u.micron, u.nm, u.mm, u.AA][int(rng.integers(4))])
            nm2 = n_m          # (a table with a single model is a table)
            cf.model_names = np.array(rng.permutation(['cv_%02d' % (i * 3) for i in range(nm2)]))      # not in lexical order
            if with_ap:
                cf.apertures = (aps * u.au).to(apu)
            fl = encode(nm2, n_a, wav_asc[:1], rng)[:, :, 0]
            cunit = u.mJy if fu in ('mJy', 'erg/cm2/s', 'erg/s') else u.Jy
            cf.flux = fl * cunit
            cf.error = fl * 0.02 * cunit
            if ic % 2 == 0:        # errors held in another unit than the fluxes
                cf.error = (fl * 0.02 * cunit).to(u.Jy if cunit == u.mJy else u.mJy)
                ctx.regime('convolved:error-in-another-unit')
            path = os.path.join(d, 'conv_%d.fits' % ic)
            try:
                cf.write(path)
                r = ConvolvedFluxes.read(path)
                ctx.event('roundtrip:convolved')
                if not with_ap:
                    ctx.regime('convolved:no-apertures')
                bad = []
                if [str(x).strip() for x in r.model_names] != list(cf.model_names):
                    bad.append('names')
                if not O.close(np.asarray(r.flux.to(cunit).value, float), fl, 1e-12) or not O.close(np.asarray(r.error.to(cunit).value, float), fl * 0.02, 1e-12):
                    bad.append('cells')
                if abs(r.central_wavelength.to(u.micron).value / wav_asc[0] - 1) > 1e-12:
                    bad.append('wavelength')
                if with_ap and (r.apertures is None or not O.close(r.apertures.to(u.au).value, aps, 1e-12)):
                    bad.append('apertures')
                if not with_ap and r.apertures is not None:
                    bad.append('apertures-appeared')
                if bad:
                    ctx.violation('convolved:' + bad[0], 'convolved-flux table read back differs: ' + ', '.join(bad), dict(wit0, kind='convolved'))
            except Exception as exc:
                ctx.raised(exc, 'convolved:roundtrip-raised', 'convolved write/read raised: %r' % (exc,), dict(wit0, kind='convolved'))
            ctx.case(('conv', ic, ctx.shard), nontrivial=True)
            if os.path.exists(path):
                os.remove(path)


def replay(ctx, rec):
    ctx.inconclusive('replay: re-run ./check C12 with VERIF_SEED=%s; the witness holds the configuration' % rec.get('seed'))
