"""C08 — a planted model is recovered through the whole pipeline.

End-to-end differential monitor: convolve_model_dir -> fit() -> FitInfoFile ->
write_parameters run un-mocked on packages generated from truth; photometry is synthesised
by the harness from truth through the reference convolution.  The monitors of C05, C06,
C09, C13, C14 and C20 are attached passively (their events are counted; anything they
report is a violation seen by this pipeline run).
"""
import os

import numpy as np
from astropy import units as u

from .. import gen, pkg, probe, convcheck, fitcheck
from .. import oracles as O
from . import c05, c06, c09, c13, c14, c20

SHARDS = {'quick': 4, 'thorough': 16, 'quick_timeout': 1200, 'thorough_timeout': 7200}
LD = np.longdouble


def limit_penalty(valid, logf, conf, pred):
    """sum of -2 ln(1-confidence) over the limits the prediction lies on the forbidden side of; pred [..., f]"""
    pen = np.zeros(np.shape(pred)[:-1])
    near = np.zeros(np.shape(pred)[:-1], bool)
    for j, v in enumerate(valid):
        if v not in (2, 3):
            continue
        dlt = np.asarray(pred[..., j], float) - float(logf[j])
        bad = dlt < 0 if v == 2 else dlt > 0
        pen = pen + np.where(bad, O.penalty(float(conf[j])), 0.0)
        near |= np.abs(dlt) < 1e-6
    return pen, near


def reference_2d(logm, k, logf, w, lo, hi, valid=None, conf=None):
    """per model (A_V, scale, chi^2) with the limit penalties of the statement added; near: a prediction within 1e-6 dex of a limit"""
    r = np.asarray(logf, LD)[None, :] - np.asarray(logm, LD)
    res = [O.fit2d(r[m], w, k, lo, hi) for m in range(len(logm))]
    a, s_, c = np.array([x.av for x in res]), np.array([x.sc for x in res]), np.array([x.obj for x in res])
    near = np.zeros(len(c), bool)
    if valid is not None:
        pred = np.asarray(logm, float) + a[:, None] * np.asarray(k, float)[None, :] - 2.0 * s_[:, None]
        pen, near = limit_penalty(valid, logf, conf, pred)
        c = c + pen
    return a, s_, c, near


def reference_3d(logm, k, logf, w, lo, hi, valid=None, conf=None):
    """logm [m, d, f] -> per model best (av, j, chi2) with the limit penalties added at every distance"""
    wL = np.asarray(w, LD)
    kL = np.asarray(k, LD)
    r = np.asarray(logf, LD)[None, None, :] - np.asarray(logm, LD)
    a = np.clip(np.sum(wL * r * kL, axis=2) / np.sum(wL * kL * kL), LD(lo), LD(hi))
    chi = np.asarray(np.sum(wL * (r - a[:, :, None] * kL) ** 2, axis=2), float)
    near = np.zeros(chi.shape, bool)
    if valid is not None:
        pred = np.asarray(logm, float) + np.asarray(a, float)[:, :, None] * np.asarray(k, float)[None, None, :]
        pen, near = limit_penalty(valid, logf, conf, pred)
        chi = chi + pen
    j = np.argmin(chi, axis=1)
    rows = np.arange(len(chi))
    return np.asarray(a[rows, j], float), j, chi[rows, j], chi, near.any(axis=1)


BIG_DONE = []
MONO_DONE = []


def run(ctx):
    rng = ctx.rng
    for mod in (c05, c06, c09, c13, c14, c20):
        mod.install(ctx)
    from sedfitter import fit, write_parameters
    from sedfitter.convolve import convolve_model_dir
    from sedfitter.fit_info import FitInfoFile
    ctx.rule = ('packages built from truth SEDs (v1 permuted parameter table / v2 cube; 2-D and 3-D) x 2..4 broadband filters convolved by the real '
                'convolve_model_dir x planted (model m, A_V0 inside the range incl. its bounds, grid distance d0 incl. the ends / scale s0) x relative '
                'photometric error e in {0 (flag 4), 1e-3..0.3} x output selectors; the whole chain runs un-mocked. a case = one pipeline; '
                'non-trivial = >=2 models and the planted model is the unique reference optimum')
    ctx.assume('photometry = truth SED through the exact-rational reference convolution, reddened with an independent extinction interpolation',
               'non-degenerate packages: cases where another model\'s reference chi^2 is within the margin of the planted one are regenerated (counted)',
               'flag-1 points bias the plant by 0.5 e^2/ln10 dex: recovery is compared with the reference fitter on the same data, and the reference with the analytic bound')
    # (the passive contracts of C05, C06, C09, C14, C20 ride along as extra observation points; which of the package's functions
    #  the pipeline goes through is not a required route)
    ctx.require_events('text-row:objects-with-other-package-in-between', 'pipeline:run', 'recovered:rank1', 'text-row:checked', 'pipeline:band-added-after-listing')
    ctx.require_regimes('cube:monochromatic-band-given-as-wavelength-not-in-micron', 'package:over-a-thousand-models', 'mode:2d', 'mode:3d', 'style:v1', 'style:v2', 'exact-plant', 'noisy-plant', 'av0:at-bound', 'av0:interior', 'sources-per-file>1', 'plant:with-unused-or-limit-band', '3d:distance-range-not-in-kpc', 'package:model-without-flux-in-a-band', 'conf:flag-not-lower-case')
    n_pipe = 10 if ctx.quick else 200
    ip = 0
    tries = 0
    while ip < n_pipe and tries < n_pipe * 4:
        tries += 1
        mode = '2d' if tries % 2 == 0 else '3d'
        style = 'v1' if (tries // 2) % 2 == 0 else 'v2'
        n_m = int(rng.integers(2, 8))
        # one cube package per run holds over a thousand models (real packages hold 10^4..10^5), with plants among the last ones
        big = (not BIG_DONE) and ctx.shard == 0 and tries >= 5
        if big:
            # (every try from the fifth on is the big cube package until one has run with a plant among its last models: the class
            #  must not depend on which tries the degeneracy and leverage filters happen to reject)
            mode, style = '2d', 'v2'
            n_m = 1300
        n_ap = 1 if mode == '2d' else int(rng.integers(2, 5))
        n_w = int(rng.choice([15, 40]))
        names = gen.model_names(rng, n_m, 'lex' if big else None)
        ncol = int(rng.integers(1, 4))
        params = {'Q%d' % c: (np.arange(n_m) + 1.0) * 10.0 ** c for c in range(ncol)}
        truth = convcheck.make_truth(rng, n_m, n_ap, n_w, names=names, wav_range=(0.2, 800.0), params=params)
        # make models clearly non-degenerate: random spectral tilts
        tilt = rng.uniform(-2, 2, n_m)
        truth.flux = truth.flux * (truth.wav[None, None, :] / 10.0) ** tilt[:, None, None]
        truth.err = truth.flux * 0.05
        d = ctx.newdir('c08')
        md = os.path.join(d, 'models')
        os.mkdir(md)
        order = list(rng.permutation(n_m))
        step = float(rng.choice([0.05, 0.1]))
        pkg.YESNO = tries          # yes/no, Yes/No, YES/NO, y/n, Y/N in models.conf
        if tries % 5:
            ctx.regime('conf:flag-not-lower-case')
        nf = int(rng.integers(2, 5))
        filters = []
        fw_first = None
        for jf in range(nf):
            fw, resp, central, kind = convcheck.make_filter_arrays(rng, truth.wav, kind='inside')
            if jf == 0:
                fw_first = (float(np.min(fw)), float(np.max(fw)))
            filters.append(convcheck.build_filter('E%d' % jf, fw, resp, central, descending_nu=bool(rng.random() < 0.5)))
        # one model that is never planted has no flux at all in the range of the first filter (e.g. an embedded source without
        # optical flux): its fit is undefined there and it must not outrank the planted model
        zero_model = None
        if n_m >= 3 and tries % 3 == 0:
            zero_model = int(rng.integers(n_m))
            zmask = (truth.wav >= fw_first[0] / 2.5) & (truth.wav <= fw_first[1] * 2.5)
            truth.flux[zero_model][:, zmask] = 0.0
            truth.err[zero_model][:, zmask] = 0.0
        if style == 'v1':
            pkg.build_v1(md, truth, table_order=order, aperture_dependent=(mode == '3d'), logd_step=step,
                         desc=rng.random(n_m) < 0.5, gz=rng.random(n_m) < 0.2, fmt='D')
            os.rmdir(os.path.join(md, 'convolved'))
        else:
            pkg.build_v2(md, truth, aperture_dependent=(mode == '3d'), logd_step=step, descending_wav=bool(rng.random() < 0.5),
                         unit=str(rng.choice(['mJy', 'mJy', 'Jy'])))
            os.rmdir(os.path.join(md, 'convolved'))
        cen = np.array([f.central_wavelength.to(u.micron).value for f in filters])
        lw, lc = gen.make_law_arrays(rng, n=15, lo=0.05, hi=3000.0)
        law = gen.build_law(lw, lc, wav_unit=[None, u.nm, u.AA, u.cm][(tries // 2) % 4])          # the law's wavelengths may be tabulated in any length unit
        k = O.ext_pattern(lw, lc, cen)
        if np.ptp(k) < 0.05 or np.max(np.abs(k)) > 5:
            ctx.rmdir(d)
            continue
        conv = np.stack([convcheck.reference_convolution(truth, f)[0] for f in filters], axis=2)     # [m, a, f]
        others = [m_ for m_ in range(n_m) if m_ != zero_model]
        if not np.all(conv[others] > 0) or (zero_model is not None and np.any(conv[zero_model, :, 0] != 0)):
            ctx.rmdir(d)
            continue
        if zero_model is not None:
            ctx.regime('package:model-without-flux-in-a-band')
        # cube packages: one more band is a monochromatic one, given to the fitter as a wavelength (a tabulated one, in nm / Angstrom /
        # mm) instead of a filter name - the cube slice at that wavelength
        filt_arg = [f.name for f in filters]
        mono = False
        if style == 'v2' and mode == '2d' and (tries % 8 == 2 or not MONO_DONE):
            # (a tabulated wavelength at which every model emits and |k| <= 5 - the bound used for the other bands, beyond which the
            #  photometry under- or overflows; the class is tried on every 2-D cube package until one pipeline has run with it)
            kall_ = O.ext_pattern(lw, lc, np.asarray(truth.wav, float))
            cand_ = [j_ for j_ in range(n_w) if np.all(truth.flux[others][:, 0, j_] > 0) and abs(float(kall_[j_])) <= 5]
            if cand_:
                jm = int(cand_[int(rng.integers(len(cand_)))])
                mono = True
                wm = float(truth.wav[jm])
                conv = np.concatenate([conv, truth.flux[:, :, jm][:, :, None]], axis=2)
                k = np.concatenate([k, O.ext_pattern(lw, lc, np.array([wm]))])
                cen = np.concatenate([cen, [wm]])
                filt_arg.append((wm * u.micron).to([u.nm, u.AA, u.mm][(tries // 8) % 3]))
                nf += 1
        c09.CUR.update(params={'cols': list(params), 'rows': {names[m]: {c: float(params[c][m]) for c in params} for m in range(n_m)}}, perm=order)
        wit0 = dict(mode=mode, style=style, n_models=n_m, n_filters=nf, table_order=order)
        try:
            convolve_model_dir(md, filters)
        except Exception as exc:
            ctx.raised(exc, 'pipeline:convolve-raised', 'convolve_model_dir raised: %r' % (exc,), wit0)
            ctx.rmdir(d)
            continue
        lo = float(rng.choice([0.0, 0.0, 2.0, -3.0]))
        hi = lo + float(rng.choice([5.0, 20.0]))
        if mode == '2d':
            theta = np.ones(nf)
            dr = np.array([1.0, 2.0])
            with np.errstate(divide='ignore'):
                logm = np.log10(conv[:, 0, :])
            dist = None
        else:
            dmin = float(gen.loguniform(rng, 0.2, 5))
            n_d = int(rng.integers(1, 9))
            dr = np.array([dmin, dmin * 10 ** (step * (n_d - 1) * (1 - 1e-9 if n_d > 1 else 1))]) if n_d > 1 else np.array([dmin, dmin])
            theta = np.array([float(gen.loguniform(rng, truth.apertures[0] * 1.05, truth.apertures[-1] * 1.5)) for _ in range(nf)]) / (dmin * 1000)
            # reference grid: ends included, log-uniform, fewest points
            L = np.log10(dr[1]) - np.log10(dr[0])
            nref = 1 if dr[0] == dr[1] else int(np.ceil(1 + L / step - 1e-12))
            dist = np.array([dr[0]]) if nref == 1 else 10 ** np.linspace(np.log10(dr[0]), np.log10(dr[1]), nref)
            with np.errstate(divide='ignore'):
                logm = fitcheck.grid_logm(conv, truth.apertures, theta, dist)
        # several planted sources per data file: the file is fitted by ONE fitter, source after source
        plants = []
        for isrc in range(int(rng.integers(1, 5)) if not big else 6):
            m0 = int(rng.choice(others))
            if big and isrc < 4:
                m0 = [m_ for m_ in others if m_ >= n_m - 250][int(rng.integers(200))]
            a0 = float(rng.choice([lo, hi, rng.uniform(lo, hi), rng.uniform(lo, hi)]))
            if mode == '2d':
                s0 = float(rng.uniform(-1.5, 1.5))
                pred = logm[m0] + a0 * k - 2 * s0
            else:
                j0 = int(rng.choice([0, len(dist) - 1, rng.integers(len(dist))]))
                pred = np.asarray(logm[m0, j0], float) + a0 * k
                s0 = float(np.log10(dist[j0]))
            e = float(rng.choice([0.0, 1e-3, 0.05, 0.3]))
            if big and isrc < 4:
                e = 0.0          # (exact plants among the last models of the big package: they are not to be lost to the degeneracy filter)
            if e == 0:
                valid = np.array([4] * nf)
                flux = pred.copy()
                err = np.full(nf, float(rng.choice([0.01, 0.05])))
            else:
                valid = np.array([1] * nf)
                flux = 10.0 ** pred
                err = flux * e * rng.uniform(0.5, 1.0, nf)
            if nf >= 3 and rng.random() < 0.4:
                jx = int(rng.integers(nf))                 # one band does not take part in the fit ...
                kind_x = int(rng.integers(3))
                if kind_x == 0:
                    valid[jx], flux[jx], err[jx] = 0, -999.0, -999.0
                elif kind_x == 1:
                    valid[jx], flux[jx], err[jx] = 9, 10.0 ** pred[jx] * 7.0, 1.0
                else:                                       # ... or is an upper limit well above the plant (satisfied: no penalty)
                    valid[jx], flux[jx], err[jx] = 3, 10.0 ** (pred[jx] + 1.0), 0.9
                ctx.regime('plant:with-unused-or-limit-band')
            logf, sig, w = O.transform(valid, flux, err)
            # (the model without flux in a band has no defined fit: it takes no part in the reference and ranks last there)
            def spread(x_, fill):
                out_ = np.full((n_m,) + np.shape(x_)[1:], fill, dtype=np.asarray(x_).dtype if np.asarray(x_).dtype.kind != 'i' else float)
                out_[others] = x_
                return out_
            if mode == '2d':
                a_k, s_k, c_k, near_lim = reference_2d(logm[others], k, logf, w, lo, hi, valid=valid, conf=err)
                a_ref, s_ref, chi_ref = spread(a_k, np.nan), spread(s_k, np.nan), spread(c_k, np.inf)
                chi_all, jref = None, None
            else:
                a_k, j_k, c_k, call_k, near_lim = reference_3d(logm[others], k, logf, w, lo, hi, valid=valid, conf=err)
                a_ref, chi_ref, chi_all = spread(a_k, np.nan), spread(c_k, np.inf), spread(call_k, np.inf)
                jref = np.zeros(n_m, int)
                jref[others] = j_k
                s_ref = np.log10(dist)[jref]
            o = np.argsort(chi_ref)
            margin = 1e-6 * (1 + chi_ref[o[0]]) + 1e-9
            degenerate = o[0] != m0 or (n_m > 1 and chi_ref[o[1]] - chi_ref[o[0]] < 10 * margin + 1e-3) or bool(np.any(near_lim))
            if not degenerate and mode == '3d':
                srt = np.sort(chi_all[m0])       # distance ties for the planted model are free: regenerate
                # ... "tie" up to what single-precision storage of the model fluxes can move a chi^2 by (Cauchy-Schwarz bound on
                # sum w 2|res| delta): within that, which of two distances is best is not decided by the statement
                dl_ = 3e-7 * (1 + float(np.max(np.abs(np.asarray(logm[m0], float)))))
                W_ = float(np.sum(w))
                fb_ = 2 * dl_ * np.sqrt(W_ * max(float(srt[0]), 0.0)) + W_ * dl_ ** 2
                degenerate = len(srt) > 1 and srt[1] - srt[0] < 1e-9 * (1 + srt[0]) + 20 * fb_
            if degenerate:
                ctx.regime('degenerate-regenerated')
                continue
            plants.append(dict(m0=m0, a0=a0, s0=s0, e=e, valid=valid, flux=flux, err=err, logf=logf, w=w, a_ref=a_ref, s_ref=s_ref,
                               chi_ref=chi_ref, jref=jref, name='planted%d' % len(plants)))
        if not plants:
            ctx.rmdir(d)
            continue
        if len(plants) > 1:
            ctx.regime('sources-per-file>1')
        data = os.path.join(d, 'data.txt')
        open(data, 'w').write(''.join(gen.source_line(p_['name'], p_['valid'], p_['flux'], p_['err'], 1.0, 2.0) + '\n' for p_ in plants))
        out = os.path.join(d, 'fit.out')
        sel = [('A', 0), ('N', 1), ('N', 3), ('F', 1e3), ('D', 1e6)][int(rng.integers(5))]
        oc = bool(rng.random() < 0.5)
        wit1 = dict(wit0, selector=sel, av_range=(lo, hi), filters=[str(x_) for x_ in filt_arg], central=cen, distance_range=dr,
                    n_sources=len(plants), output_convolved=oc)
        wsel = [('N', 1), ('N', 3), ('A', 0)][int(rng.integers(3))]
        try:
            aunit = [u.arcsec, u.arcmin, u.deg][int(rng.integers(3))]
            # the distance range may be given in any length unit (3-D: the ends are at least 1e-9 of a step away from where the number
            # of grid points changes, so the round-off of a unit conversion cannot change the reference grid)
            dunit = [u.kpc, u.pc, u.cm, u.Mpc][int(rng.integers(4))]
            if mode == '3d' and dunit != u.kpc:
                ctx.regime('3d:distance-range-not-in-kpc')
            fit(data, filt_arg, (theta * u.arcsec).to(aunit), md, out, n_data_min=1,
                extinction_law=law, av_range=(lo, hi), distance_range=(dr * u.kpc).to(dunit), output_format=sel, output_convolved=oc)
            fin = FitInfoFile(out, 'r')
            recs = list(fin)
            fin.close()
            txt = os.path.join(d, 'pars.txt')
            write_parameters(out, txt, select_format=wsel)
        except Exception as exc:
            ctx.raised(exc, 'pipeline:raised:%s' % type(exc).__name__, 'the pipeline raised: %r' % (exc,), wit1)
            ctx.rmdir(d)
            continue
        ctx.event('pipeline:run')
        if mono:
            MONO_DONE.append(True)
            ctx.regime('cube:monochromatic-band-given-as-wavelength-not-in-micron')
        if big and any(p_['m0'] >= n_m - 250 for p_ in plants):          # (counted only when a plant among the last models was kept)
            BIG_DONE.append(True)
            ctx.regime('package:over-a-thousand-models')
        ctx.regime('mode:' + mode)
        ctx.regime('style:' + style)
        ip += 1
        ctx.case(('pipe', tries, ctx.shard), nontrivial=n_m >= 2,
                 sample=dict(wit1, planted=[(names[p_['m0']], p_['a0'], p_['s0'], p_['e']) for p_ in plants],
                             rank1=[str(r_.model_name[0]) for r_ in recs]) if ip <= 2 else None)
        if len(recs) != len(plants):
            ctx.violation('pipeline:record-count', 'the fit file does not hold one record per planted source', dict(wit1, records=len(recs)))
            ctx.rmdir(d)
            continue
        lines = open(txt).read().split('\n')
        li = 3
        for p_, rec in zip(plants, recs):
            m0, a0, s0, e = p_['m0'], p_['a0'], p_['s0'], p_['e']
            a_ref, s_ref, chi_ref, jref, w, logf = p_['a_ref'], p_['s_ref'], p_['chi_ref'], p_['jref'], p_['w'], p_['logf']
            wit = dict(wit1, source=p_['name'], planted=(names[m0], a0, s0), e=e, valid=p_['valid'], flux=p_['flux'], error=p_['err'])
            ctx.regime('exact-plant' if e == 0 else 'noisy-plant')
            ctx.regime('av0:at-bound' if a0 in (lo, hi) else 'av0:interior')
            # the block of this source in the text output
            # (located by content, so extra header or comment lines do not matter)
            li = next((i_ for i_, l_ in enumerate(lines) if l_.split()[:1] == [p_['name']] and len(l_.split()) == 3), None)
            blk_hdr = lines[li].split() if li is not None else []
            nfits_txt = int(blk_hdr[2]) if len(blk_hdr) == 3 and c09._isint(blk_hdr[2]) else None
            first_row = lines[li + 1] if nfits_txt else None
            # rank 1 is the planted model, with the reference fitter's numbers
            r1 = str(rec.model_name[0]).strip()
            if r1 != names[m0]:
                ctx.violation('recovery:wrong-model-ranked-first', 'the planted model is not ranked first',
                              dict(wit, rank1=r1, chi2_rank1=float(rec.chi2[0]), chi2_ref_planted=float(chi_ref[m0])))
                continue
            ctx.event('recovered:rank1')
            gA = float(np.sum(w * np.abs(k - np.sum(w * k) / np.sum(w))) / np.sum(w * (k - np.sum(w * k) / np.sum(w)) ** 2)) if mode == '2d' \
                else float(np.sum(w * np.abs(k)) / np.sum(w * k * k))
            # chi^2: first-order effect of the accuracy delta of the model log-fluxes held by the fitter
            # (float32 memmap for cube packages: fit() always memory-maps them; 1e-9 convolution agreement otherwise)
            lm = np.asarray(logm[m0] if mode == '2d' else logm[m0, jref[m0]], float)
            delta = 3e-7 * (1 + float(np.max(np.abs(lm))))       # fit() builds its own fitter: single-precision storage is allowed for in every format
            resv = np.asarray(logf, float) - lm - a_ref[m0] * k + (2 * s_ref[m0] if mode == '2d' else 0.0)
            ctol = 1e-9 * (1 + chi_ref[m0]) + float(np.sum(w * (2 * np.abs(resv) * delta + delta ** 2)))
            tolA = 1e-7 * (1 + abs(a_ref[m0])) + 3 * delta * gA
            if abs(float(rec.av[0]) - a_ref[m0]) > tolA or abs(float(rec.sc[0]) - s_ref[m0]) > (1e-12 if mode == '3d' else tolA) + 1e-9 or \
                    abs(float(rec.chi2[0]) - chi_ref[m0]) > ctol:
                ctx.violation('recovery:differs-from-reference', 'rank-1 (chi^2, A_V, scale) differ from the reference fit of the same data',
                              dict(wit, got=(float(rec.chi2[0]), float(rec.av[0]), float(rec.sc[0])), reference=(float(chi_ref[m0]), float(a_ref[m0]), float(s_ref[m0])),
                                   tolA=tolA, ctol=ctol))
            # sanity of the oracle itself: the reference is within the analytic bias bound of the plant
            bias = 0.5 * (np.max(p_['err'] / np.maximum(np.abs(p_['flux']), 1e-300)) ** 2) / np.log(10) if e > 0 else 0.0
            # 3-D with noisy photometry: the biased plant may sit one or two grid steps away, which A_V then compensates (2 dex per dex of distance)
            slack = 0.0 if (mode == '2d' or e == 0) else 4 * step
            if mode == '3d' and e > 0:
                # (with noisy photometry on a distance grid the optimum may legitimately sit several steps from the plant when the
                #  extinction pattern is nearly grey - A_V and distance then trade against each other; the analytic bound does not cover it)
                ctx.event('oracle-sanity:not-applicable(3-D, noisy plant)')
            elif abs(a_ref[m0] - a0) > (bias + slack) * gA * 2 + 1e-6 or (mode == '3d' and abs(s_ref[m0] - s0) > slack / 2 + 1e-9):
                ctx.inconclusive('oracle sanity failed: reference (%g, %g) vs plant (%g, %g), bias bound %g' % (a_ref[m0], s_ref[m0], a0, s0, bias * gA))
            # the text row next to m is m's own parameter row
            tok = first_row.split() if first_row else []
            cols = list(params)
            ok = len(tok) == 5 + len(cols) and tok[1] == names[m0] and all(c09.close3e(tok[5 + c], params[col][m0]) for c, col in enumerate(cols))
            ctx.event('text-row:checked')
            if not ok:
                ctx.violation('text-row:not-the-planted-models-row', 'the parameter row printed next to the best fit is not the planted model\'s row of the parameter file',
                              dict(wit, line=first_row, expected=[float(params[c][m0]) for c in cols]))
        # the same through result objects, with a second fitter on another package (same model names, other parameter values)
        # used before the listing is written: the row printed must still be the planted model's row of *this* package
        import shutil
        p0 = plants[0]
        md2 = os.path.join(d, 'other_package')
        shutil.copytree(md, md2)
        for fn_ in os.listdir(md2):
            if fn_.startswith('parameters.fits'):
                os.remove(os.path.join(md2, fn_))
        order2 = list(range(n_m)) if style == 'v2' else list(rng.permutation(n_m))       # (cube packages: the table follows the cube's order)
        pkg.write_parameters(md2, [names[i] for i in order2], {c_: (np.asarray(params[c_]) * 1.37 + 5.0)[order2] for c_ in params})
        try:
            fA = gen.make_fitter(filt_arg, theta, md, law, (lo, hi), dr, use_memmap=False)
            infoA = fA.fit(gen.build_source(p0['name'], p0['valid'], p0['flux'], p0['err']))
            fB = gen.make_fitter(filt_arg, theta, md2, law, (lo, hi), dr, use_memmap=False)
            fB.fit(gen.build_source('other', p0['valid'], p0['flux'], p0['err']))
            txt2 = os.path.join(d, 'pars_objects.txt')
            write_parameters(infoA, txt2, select_format=('N', 1))
            rows2 = [l_ for l_ in open(txt2).read().split('\n') if l_.split()[:1] == ['1'] and len(l_.split()) == 5 + len(params)]
            ctx.event('text-row:objects-with-other-package-in-between')
            m0 = p0['m0']
            if str(infoA.model_name[0]).strip() == names[m0]:
                tok = rows2[0].split() if rows2 else []
                if not (tok and tok[1] == names[m0] and all(c09.close3e(tok[5 + c], params[col][m0]) for c, col in enumerate(list(params)))):
                    ctx.violation('text-row:not-the-planted-models-row:objects', 'the parameter row printed next to the best fit (results passed as objects, another package fitted in between) '
                                  'is not the planted model\'s row of the parameter file', dict(wit1, line=rows2[:1], expected=[float(params[c_][m0]) for c_ in params]))
        except Exception as exc:
            ctx.raised(exc, 'pipeline:raised:objects:%s' % type(exc).__name__, 'the object-interface pipeline raised: %r' % (exc,), wit1)
        # second round on the same per-file package, in the same process: one more filter is convolved *after* the fits and the
        # listings above were made, then everything is fitted again with old and new bands together (the usual way a band is added
        # to an existing analysis): the planted model must still come first with the reference chi^2
        if style == 'v1' and mode == '2d':
            fwx, respx, centralx, _ = convcheck.make_filter_arrays(rng, truth.wav, kind='inside')
            fx = convcheck.build_filter('EX', fwx, respx, centralx, descending_nu=bool(rng.random() < 0.5))
            kx = float(O.ext_pattern(lw, lc, np.array([fx.central_wavelength.to(u.micron).value]))[0])
            convx = convcheck.reference_convolution(truth, fx)[0][:, 0]
            m0, a0, s0 = p0['m0'], p0['a0'], p0['s0']
            if np.all(convx[others] > 0):
                with np.errstate(divide='ignore'):
                    logm2 = np.concatenate([logm, np.log10(convx)[:, None]], axis=1)
                k2 = np.concatenate([k, [kx]])
                pred2 = logm2[m0] + a0 * k2 - 2 * s0
                valid2 = np.array([4] * (nf + 1))
                err2 = np.full(nf + 1, 0.02)
                logf2, _, w2 = O.transform(valid2, pred2, err2)
                a_k, s_k, c_k, _nl = reference_2d(logm2[others], k2, logf2, w2, lo, hi, valid=valid2, conf=err2)
                o2 = np.argsort(c_k)
                if others[int(o2[0])] == m0 and (len(o2) < 2 or c_k[o2[1]] - c_k[o2[0]] > 1e-2):
                    wit2 = dict(wit1, added_filter_central=centralx, planted=(names[m0], a0, s0), flux=pred2)
                    try:
                        convolve_model_dir(md, [fx])
                        fC = gen.make_fitter([f.name for f in filters] + ['EX'], np.ones(nf + 1), md, law, (lo, hi), dr, use_memmap=False)
                        infoC = fC.fit(gen.build_source('again', valid2, pred2, err2))
                        ctx.event('pipeline:band-added-after-listing')
                        r1 = str(infoC.model_name[0]).strip()
                        cref = float(c_k[o2[0]])
                        if r1 != names[m0] or abs(float(infoC.chi2[0]) - cref) > 1e-6 * (1 + cref) + 1e-4:
                            ctx.violation('recovery:after-band-added-to-listed-package',
                                          'after a filter was convolved into a package that had already been fitted and listed, the planted model is '
                                          'no longer recovered with the reference chi^2',
                                          dict(wit2, rank1=r1, chi2_rank1=float(infoC.chi2[0]), chi2_reference=cref))
                    except Exception as exc:
                        ctx.raised(exc, 'pipeline:raised:band-added:%s' % type(exc).__name__, 'convolving one more filter and fitting again raised: %r' % (exc,), wit2)
        c09.CUR.update(params=None)
        ctx.rmdir(d)
    if ip < n_pipe // 2:
        ctx.inconclusive('too many degenerate cases regenerated: only %d pipelines run' % ip)


def replay(ctx, rec):
    ctx.inconclusive('replay: re-run ./check C08 with VERIF_SEED=%s' % rec.get('seed'))
