"""C05 — selection tuples keep exactly the fits the syntax page promises.

snapshot + post-condition contract on FitInfo.keep (every call, also the ones made by
the post-processing functions in other checks); exhaustive chi^2 vectors of length <= 5.
"""
import itertools

import numpy as np

from .. import gen, probe
from .. import oracles as O

SHARDS = {'quick': 8, 'thorough': 16, 'quick_timeout': 900, 'thorough_timeout': 5400}

ALPHABET = (0.0, 1.0, 2.5, 7.0, 1e30, float('inf'), float('nan'))
FIELDS = ('av', 'sc', 'chi2', 'model_name', 'model_id', 'model_fluxes')


def snap_info(info):
    return {k: probe.arr(getattr(info, k)) for k in FIELDS}


def install(ctx, strict_threshold=True):
    from sedfitter.fit_info import FitInfo

    def keep_snapshot(self):
        return snap_info(self)

    def keep_post(self, select_format, OLD, result):
        ctx.event('FitInfo.keep:post')
        old = OLD.S
        try:
            form, val = select_format
        except Exception:
            return True
        if form not in ('A', 'N', 'C', 'D', 'E', 'F'):
            return True
        chi = old['chi2']
        # n_data from the flags themselves (flags 1 and 4 only), not from the code under test
        v_ = np.asarray(self.source.valid) if self.source is not None else np.array([])
        n_data = int(np.sum((v_ == 1) | (v_ == 4)))
        wit = {'selector': (form, val), 'chi2': chi, 'n_data': n_data}
        if form in 'EF' and n_data == 0:
            # chi^2 per data point with no data point is not defined by the syntax page (x/0): don't-care
            ctx.event('keep:per-point-selector-with-no-fitted-point(dont-care)')
            return True
        if form in 'CDEF':
            # quantifier: thresholds never equal an attained value (docs say "below", code says <=)
            q = np.asarray(chi, float)
            if form in 'DF' and len(q):
                q = q - q[0]
            if form in 'EF':
                with np.errstate(all='ignore'):
                    q = q / n_data
            if np.any(q == val):
                ctx.event('keep:threshold-equals-attained-value(dont-care)')
                return True
            if form in 'DF' and len(chi):
                best = float(chi[0])
                # chi^2 - chi^2_best is not defined by the syntax page when the best chi^2 is infinite, and when the
                # threshold is below the floating-point spacing of the best chi^2 (1e30 - 3 == 1e30) algebraically
                # equivalent formulations (chi^2 <= best + v) legitimately differ: don't-care
                if not np.isfinite(best) or abs(float(val) * (n_data if form == 'F' else 1)) <= 4 * np.spacing(abs(best)):
                    ctx.event('keep:relative-threshold-below-float-spacing(dont-care)')
                    return True
        if form == 'N' and (val != int(val) or val < 0):
            return True
        cnt, prefix = O.keep_count(chi, n_data, (form, val))
        new = snap_info(self)
        bad = []
        for k in FIELDS:
            o, nw = old[k], new[k]
            if o is None:
                if nw is not None:
                    bad.append(k + ' appeared')
                continue
            if nw is None or len(nw) != cnt or not probe.same(o[:cnt], nw):
                bad.append('%s: kept %s, expected the first %d of %d' % (k, 'None' if nw is None else len(nw), cnt, len(o)))
        try:
            nf = self.n_fits
        except Exception as exc:
            nf = repr(exc)
        if nf != cnt:
            bad.append('n_fits=%r, expected %d' % (nf, cnt))
        if bad:
            lens = sorted({(len(new[k]) if new[k] is not None else -1) for k in FIELDS if old[k] is not None})
            key = 'keep:arrays-cut-unequally' if len(lens) > 1 else 'keep:wrong-count:' + form
            ctx.violation(key, 'keep(%r) did not keep exactly the fits the syntax page promises: %s' % ((form, val), '; '.join(bad[:3])),
                          dict(wit, kept={k: new[k] for k in ('chi2', 'model_id')}))
        return True

    probe.attach(FitInfo, 'keep', ensure=keep_post, snapshot=keep_snapshot)


def make_info(chi2, n_fit, n_other, rng, with_fluxes=True):
    """ranked FitInfo built directly: arrays set, sort() (the real one) called"""
    from sedfitter.fit_info import FitInfo
    n = len(chi2)
    valid = [1] * (n_fit // 2) + [4] * (n_fit - n_fit // 2) + [2, 3, 0, 9][:n_other]
    flux = [1.0] * len(valid)
    src = gen.build_source('k', valid, flux, [0.1] * len(valid))
    info = FitInfo(src)
    info.chi2 = np.array(chi2, float)
    info.av = np.arange(n, dtype=float) * 1.5 + 0.25          # position-encoding: row i of the unsorted input
    info.sc = -np.arange(n, dtype=float) - 0.125
    info.model_name = np.array(['m%03d' % i for i in range(n)], dtype='U12')
    info.model_fluxes = (np.arange(n, dtype=float)[:, None] * 10 + np.arange(len(valid))[None, :]) if with_fluxes else None
    info.sort()
    return info


CLONE_KIND = [0]


def clone(info):
    """a fresh object to select on: by turns a hand-built FitInfo, the package's own FitInfo.copy() (what the
    post-processing functions get for in-memory results) and an unpickled one (what they get from a file)"""
    import pickle
    from sedfitter.fit_info import FitInfo
    CLONE_KIND[0] += 1
    kind = CLONE_KIND[0] % 3
    if kind == 1 and hasattr(info, 'copy'):
        return info.copy()
    if kind == 2:
        c = pickle.loads(pickle.dumps(info, 2))
        return c
    c = FitInfo(info.source)
    for k in FIELDS:
        setattr(c, k, getattr(info, k))
    return c


def thresholds(q):
    """grid mid-way between attained finite values, plus below/above/huge/negative; never an attained value"""
    q = np.asarray(q, float)
    f = np.unique(q[np.isfinite(q)])
    out = set()
    if f.size:
        mids = (f[:-1] + f[1:]) / 2
        if mids.size > 64:          # long vectors: 48 cuts spread evenly over the ranking (every cut of a 9001-long vector would be quadratic)
            mids = mids[np.unique(np.linspace(0, mids.size - 1, 48).astype(int))]
        out.update(mids.tolist())
        out.add(float(f[0]) - 1.0)
        out.add(float(f[-1]) * 1.5 + 1.0)
    out.update([-3.0, 1e300, 0.37])
    return sorted(v for v in out if not np.any(q == v) and np.isfinite(v))


def selectors_for(info, n_data):
    chi = np.asarray(info.chi2, float)
    sels = [('A', 0), ('A', 3.5), ('A', None)] + [('N', n) for n in range(0, 8)] + [('N', 2.0), ('N', np.int64(1)), ('N', np.float64(5.0))]
    with np.errstate(all='ignore'):
        qs = {'C': chi, 'D': chi - chi[0] if len(chi) else chi, 'E': chi / n_data,
              'F': (chi - chi[0]) / n_data if len(chi) else chi}
    for form, q in qs.items():
        sels += [(form, v) for v in thresholds(q)]
    return sels


def check_info(ctx, info, n_data, rng, pairs):
    sels = selectors_for(info, n_data)
    kept = {}
    for s in sels:
        c = clone(info)
        try:
            c.keep(s)
        except Exception as exc:
            ctx.raised(exc, 'keep:raised', 'keep(%r) raised: %r' % (s, exc), {'chi2': info.chi2, 'selector': s})
            continue
        kept[s] = c
        # idempotence
        before = len(c.chi2)
        try:
            c2 = clone(c)
            c2.keep(s)
        except Exception as exc:
            ctx.raised(exc, 'keep:raised', 'second keep(%r) raised: %r' % (s, exc), {'chi2': info.chi2, 'selector': s})
            continue
        if len(c2.chi2) != before or not probe.same(c2.model_id, c.model_id):
            ctx.violation('keep:not-idempotent', 'selecting twice differs from selecting once',
                          {'chi2': info.chi2, 'selector': s, 'once': before, 'twice': len(c2.chi2)})
        ctx.event('composition:twice')
    if pairs:
        keys = list(kept)
        for _ in range(pairs):
            s1, s2 = keys[int(rng.integers(len(keys)))], keys[int(rng.integers(len(keys)))]
            n1, n2 = len(kept[s1].chi2), len(kept[s2].chi2)
            if n1 < n2:
                s1, s2, n1, n2 = s2, s1, n2, n1
            # s1 is the looser selector on this input: keep(s2) o keep(s1) == keep(s2)
            c = clone(info)
            c.keep(s1)
            c.keep(s2)
            if len(c.chi2) != n2 or not probe.same(c.model_id, kept[s2].model_id):
                ctx.violation('keep:looser-first-differs', 'selecting with a looser selector first changes the result',
                              {'chi2': info.chi2, 'looser': s1, 'tighter': s2, 'direct': n2, 'composed': len(c.chi2)})
            ctx.event('composition:looser-first')


def run(ctx):
    rng = ctx.rng
    install(ctx)
    nmax = 4 if ctx.quick else 5
    ctx.rule = ('every ordered chi^2 vector of length 0..%d over {0,1,2.5,7,1e30,inf,NaN} (exhaustive, partitioned over shards; ordered because after '
                'sort() they differ in which model carries which chi^2) x n_data in two values with limit/ignored flags that must not count x every '
                'selector form with thresholds mid-way between attained values, N in 0..7, plus sampled length-%d and random vectors up to 500 '
                'long; compositions (twice; looser first). a case = one ranked FitInfo with all its selectors; non-trivial = length>=2')
    ctx.rule = ctx.rule % (nmax, nmax + 1)
    ctx.exhaustive = True
    ctx.extra['exhaustive_subspace'] = 'chi^2 vectors of length 0..%d over a 7-letter alphabet' % nmax
    ctx.assume("('A', value): the documented two-element form is driven; keep(('A',)) cannot be unpacked and is not claimed",
               'thresholds never equal an attained value (docs: "below"; code: <=) and are finite', 'N >= 0 integer')
    ctx.require_events('FitInfo.keep:post', 'composition:twice', 'composition:looser-first', 'history:source-flags-changed')
    ctx.require_regimes('vector:thousands-of-fits', 'has_nan', 'has_inf', 'has_ties', 'empty', 'long_vector')
    i = 0
    for n in range(0, nmax + 1):
        for vec in itertools.product(ALPHABET, repeat=n):
            if ctx.mine(i):
                n_fit = (i // ctx.nshards) % 9          # 0..8 fitted points (0: chi^2/n_data is never below a threshold)
                info = make_info(vec, n_fit, int(rng.integers(0, 5)), rng, with_fluxes=bool(i % 3))
                check_info(ctx, info, n_fit, rng, pairs=3 if n >= 2 else 0)
                ctx.case(('vec', vec, n_fit), nontrivial=n >= 2, sample={'chi2': list(vec), 'n_data': n_fit} if n == 3 else None)
                a = np.array(vec, float)
                if n == 0:
                    ctx.regime('empty')
                if np.isnan(a).any():
                    ctx.regime('has_nan')
                if np.isinf(a).any():
                    ctx.regime('has_inf')
                if len(set(vec)) < n:
                    ctx.regime('has_ties')
            i += 1
    # one Source object re-used while its flags are re-assigned: n_data must follow the flags
    for j in range((120 if ctx.quick else 4000) // ctx.nshards):
        vec = np.round(gen.loguniform(rng, 0.5, 50, int(rng.integers(2, 9))), 1)
        info = make_info(vec, int(rng.integers(1, 5)), 4, rng)
        src = info.source
        for step in range(3):
            nfit = int(rng.integers(1, 7))
            newv = np.array([1] * nfit + [2, 3, 0, 9][:int(rng.integers(0, 5))])
            rng.shuffle(newv)
            if True:
                src.flux = None
                src.error = None
                src.valid = None
                src.valid = newv                          # re-assigned
                src.flux = np.ones(len(newv))
                src.error = np.ones(len(newv)) * 0.1
            check_info(ctx, info, int(np.sum((newv == 1) | (newv == 4))), rng, pairs=2)
            ctx.event('history:source-flags-changed')
        ctx.case(('reuse', j, ctx.shard), nontrivial=True)
    # sampled longer vectors
    n_long = (320 if ctx.quick else 40000) // ctx.nshards
    for j in range(n_long):
        n = int(rng.choice([nmax + 1, 8, 30, 120, 500]))
        kind = rng.random()
        if j % 40 == 3:
            # a result that keeps a whole grid: thousands of ranked fits (not a multiple of any power of two up to 8192)
            n, kind = (9001 if (ctx.quick or j % 80 == 3) else 70001), 0.5 + 0.4 * (j % 3 == 0)
            ctx.regime('vector:thousands-of-fits')
        if kind < 0.4:
            vec = rng.choice(ALPHABET, n)
        elif kind < 0.8:
            vec = np.round(gen.loguniform(rng, 0.01, 1e4, n), int(rng.integers(0, 4)))
        else:
            vec = np.concatenate([gen.loguniform(rng, 0.1, 100, n - n // 3), rng.choice([np.inf, np.nan, 1e30], n // 3)])
            rng.shuffle(vec)
        n_fit = int(rng.integers(1, 9))
        info = make_info(vec, n_fit, int(rng.integers(0, 5)), rng)
        check_info(ctx, info, n_fit, rng, pairs=10)
        ctx.case(('long', j, ctx.shard), nontrivial=True)
        ctx.regime('long_vector')


def replay(ctx, rec):
    ctx.inconclusive('replay: re-run ./check C05 with VERIF_SEED=%s; the witness holds the literal inputs' % rec.get('seed'))
