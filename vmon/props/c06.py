"""C06 — broadband convolution is the binned integral of F_nu * R_nu.

Post-condition contracts on Filter.rebin and Filter.normalize against an exact-rational
integration of the piecewise-linear response; contents of convolved/<filter>.fits written
by convolve_model_dir against sum F R_ref / sqrt(sum (E R_ref)^2) from package truth.
"""
import os

import numpy as np
from astropy import units as u

from .. import gen, pkg, probe, convcheck
from .. import oracles as O

SHARDS = {'quick': 4, 'thorough': 16, 'quick_timeout': 900, 'thorough_timeout': 3600}


def install(ctx):
    from sedfitter.filter import Filter

    def rebin_snapshot(self, nu_new):
        return (probe.arr(self.nu.to(u.Hz)), probe.arr(self.response), probe.arr(nu_new.to(u.Hz)))

    def rebin_post(self, nu_new, OLD, result):
        ctx.event('Filter.rebin:post')
        fnu, fr, g = OLD.S
        if len(np.unique(fnu)) != len(fnu) or len(np.unique(g)) != len(g) or len(g) < 2:
            return True
        mono = lambda a: np.all(np.diff(a) > 0) or np.all(np.diff(a) < 0)
        if not (mono(fnu) and mono(g)):
            return True
        ref = np.array([float(x) for x in O.rebin_exact(fnu, fr, g)])
        got = np.asarray(result.response, float)
        tol = 1e-9 * np.abs(ref) + 1e-12 * np.sum(np.abs(ref)) + 1e-300
        wit = {'filter_nu': fnu, 'filter_response': fr, 'grid_nu': g,
               'filter_order': 'ascending' if fnu[0] < fnu[-1] else 'descending',
               'grid_order': 'ascending' if g[0] < g[-1] else 'descending'}
        if got.shape != ref.shape:
            ctx.violation('rebin:shape', 'binned response has the wrong length', wit)
        elif np.any(np.abs(got - ref) > tol):
            i = int(np.argmax(np.abs(got - ref) - tol))
            key = 'rebin:wrong-bin-integral:filter-%s' % wit['filter_order']
            ctx.violation(key, 'R_i is not the exact integral of the piecewise-linear response over the bin of nu_i (midpoint edges, restricted to the overlap)',
                          dict(wit, bin=i, got=float(got[i]), expected=float(ref[i]), sum_got=float(got.sum()), sum_expected=float(ref.sum())))
        # sum_i R_i equals the filter's integral over the overlap
        tot = float(O.integral_exact(fnu, fr, min(g[0], g[-1]), max(g[0], g[-1])))
        if abs(float(got.sum()) - tot) > 1e-9 * abs(tot) + 1e-12 * np.sum(np.abs(ref)) + 1e-300:
            ctx.violation('rebin:sum-not-overlap-integral', 'sum of binned responses differs from the integral of the filter over the overlap',
                          dict(wit, sum_got=float(got.sum()), overlap_integral=tot))
        return True

    def norm_snapshot(self):
        return (probe.arr(self.nu.to(u.Hz)), probe.arr(self.response))

    def norm_post(self, OLD, result):
        ctx.event('Filter.normalize:post')
        fnu, fr = OLD.S
        tot = float(O.integral_exact(fnu, fr))
        if tot <= 0:
            return True
        got = np.asarray(self.response, float)
        gnu = np.asarray(self.nu.to(u.Hz).value, float)
        o1, o0 = np.argsort(gnu), np.argsort(fnu)
        if got.shape != fr.shape or not O.close(gnu[o1], fnu[o0], 1e-12) or not O.close(got[o1], (fr / tot)[o0], 1e-12):
            ctx.violation('normalize:not-unit-integral', 'normalised response is not response / |integral over nu|',
                          {'filter_nu': fnu, 'response': fr, 'integral': tot, 'got': got})
        return True

    probe.attach(Filter, 'rebin', ensure=rebin_post, snapshot=rebin_snapshot)
    probe.attach(Filter, 'normalize', ensure=norm_post, snapshot=norm_snapshot)


def grid_for(rng, fw, kind):
    """SED wavelength grid (ascending) relative to a filter wavelength array fw (ascending)"""
    a, b = fw[0], fw[-1]
    n = int(rng.choice([2, 3, 5, 12, 30, 80]))
    if kind == 'contains':
        lo, hi = a * rng.uniform(0.1, 0.95), b * rng.uniform(1.05, 10)
    elif kind == 'contained':
        lo, hi = a + (b - a) * rng.uniform(0.05, 0.3), a + (b - a) * rng.uniform(0.6, 0.95)
    elif kind == 'partial-lo':
        lo, hi = a * rng.uniform(0.1, 0.9), a + (b - a) * rng.uniform(0.2, 0.9)
    elif kind == 'partial-hi':
        lo, hi = a + (b - a) * rng.uniform(0.1, 0.8), b * rng.uniform(1.1, 10)
    elif kind == 'same-ends':
        lo, hi = a, b
    else:  # disjoint
        lo, hi = b * 1.5, b * 4
    w = np.sort(np.concatenate([[lo, hi], rng.uniform(lo, hi, n - 2)])) if n > 2 else np.array([lo, hi])
    w = np.unique(w)
    return w


def coinciding_grid(rng, fnu_asc):
    """frequency grid whose midpoints fall exactly on filter nodes / end points (constructed)"""
    g = [fnu_asc[0] * (1 - 0.1 * rng.random())]
    for node in fnu_asc:
        nxt = 2.0 * node - g[-1]
        if nxt <= g[-1]:
            break
        if 0.5 * (g[-1] + nxt) != node:
            continue
        g.append(nxt)
    if len(g) < 2:
        g.append(g[-1] * 1.5)
    return np.array(g)


def run(ctx):
    rng = ctx.rng
    install(ctx)
    from sedfitter.filter import Filter
    from sedfitter.convolve import convolve_model_dir
    ctx.rule = ('filters with 2..60 samples (irregular, zero/non-zero edges, either storage order, built in memory or read from two-column text files in '
                'either wavelength order) x SED grids with 2..80 frequencies (either order; coarser/finer; containing, contained, partial, same ends, disjoint; '
                'bin edges constructed to coincide with filter nodes/ends); then whole packages through convolve_model_dir (v1 and v2, float64). '
                'a case = one rebin or one convolved file; non-trivial = filter and grid overlap')
    ctx.assume('oracle: exact rational integration of the piecewise-linear response on the float inputs; midpoints formed in float64 as the statement\'s midpoints',
               'tolerance 1e-9 relative + 1e-12 of sum|R| (trapezium sums in float64)', 'strictly monotone grids (duplicate frequencies outside the quantifier)')
    ctx.require_events('Filter.rebin:post', 'Filter.normalize:post', 'file:checked', 'flat-spectrum', 'filter:read-from-text', 'rebin:same-filter-again', 'reconvolved:same-name-new-response', 'normalize:filters-sharing-one-array')
    ctx.require_regimes('filter:response-scale-far-from-1', 'filter:integer-response', 'grid:not-in-Hz', 'filter:ascending-nu', 'filter:descending-nu', 'grid:ascending-nu', 'grid:descending-nu', 'grid:coarser', 'grid:finer',
                        'overlap:partial-lo', 'overlap:partial-hi', 'overlap:contains', 'overlap:contained', 'edges:coincide', 'pkg:v1', 'pkg:v2', 'pkg:mixed-grids', 'filter:not-normalised', 'grids:nearly-equal')
    d = ctx.newdir('c06')
    n_reb = 500 if ctx.quick else 15000
    for it in range(n_reb):
        # filter
        nf = int(rng.choice([2, 3, 4, 8, 20, 60]))
        a = float(gen.loguniform(rng, 0.3, 300))
        b = a * float(rng.uniform(1.05, 3.0))
        fw = np.unique(np.sort(np.concatenate([[a, b], rng.uniform(a, b, nf - 2)]))) if nf > 2 else np.array([a, b])
        resp = rng.uniform(0, 1, len(fw))
        resp[rng.random(len(fw)) < 0.15] = 0.0
        if rng.random() < 0.4:
            resp[0] = resp[-1] = 0.0
        if not np.any(resp > 0):
            resp[0] = 0.7
        scaled = None
        if it % 6 == 4:
            # the overall scale of a response is arbitrary (counts, percent, throughput x area, ...): very small and very large ones
            scaled = [1e-30, 1e-25, 1e-12, 1e12, 1e25][(it // 6) % 5]
            resp = resp * scaled
            ctx.regime('filter:response-scale-far-from-1')
        desc = bool(rng.random() < 0.5)
        how = rng.random()
        if how < 0.3:
            # two-column text file, either wavelength order; Filter.read keeps the file's order
            path = os.path.join(d, 'flt%d.txt' % it)
            pkg.write_filter_text(path, fw, resp, np.sqrt(a * b), descending=not desc)
            try:
                f = Filter.read(path)
                ctx.event('filter:read-from-text')
            except Exception as exc:
                ctx.raised(exc, 'filter-read-raised', 'Filter.read raised: %r' % (exc,), {'wav': fw})
                continue
            os.remove(path)
            # the curve read must be the curve in the file: (wavelength, response) pairs, central wavelength, name
            rnu = np.asarray(f.nu.to(u.Hz).value, float)
            rr = np.asarray(f.response, float)
            o_ = np.argsort(rnu)
            want_nu = (pkg.C_UM_HZ / fw)[::-1]
            if rnu.shape != fw.shape or not O.close(rnu[o_], want_nu, 1e-12) or not O.close(rr[o_], resp[::-1], 1e-15) or \
                    abs(f.central_wavelength.to(u.micron).value / np.sqrt(a * b) - 1) > 1e-12 or f.name != 'flt%d' % it:
                ctx.violation('filter-read:curve-differs-from-file', 'the filter read from a two-column text file is not the curve stored in it',
                              {'file_wav': fw, 'file_response': resp, 'read_nu': rnu, 'read_response': rr, 'name': f.name})
                continue
            desc = bool(f.nu[0] > f.nu[-1])
        else:
            f = convcheck.build_filter('f', fw, resp, np.sqrt(a * b), descending_nu=desc, normalize=False)
        ctx.regime('filter:descending-nu' if desc else 'filter:ascending-nu')
        int_resp = False
        if it % 5 == 3 and how >= 0.3:
            # a response given as whole numbers (an integer array, e.g. counts or percent): not normalised, re-binned as it is
            ints = np.maximum(np.round(np.asarray(resp, float) * 9), 0).astype([np.int64, np.int32][it % 2])
            if ints.max() > 0:
                f.response = ints[::-1] if not desc else ints
                resp = ints.astype(float)
                int_resp = True
                ctx.regime('filter:integer-response')
        if it % 4 == 2:
            # several filters alive at once, built from one and the same response array (a common shape used for several
            # bands): normalising one must not change another (each keeps the unit integral its own contract established)
            from sedfitter.filter import Filter
            shared = np.array(resp, float)
            shared0 = shared.copy()
            fs_ = []
            for jf, (scale_, view_) in enumerate([(1.0, shared), (1.9, shared), (0.6, shared[::-1])]):
                g_ = Filter()
                g_.name = 'sh%d' % jf
                g_.central_wavelength = np.sqrt(a * b) * u.micron
                nu_ = pkg.C_UM_HZ / np.asarray(fw, float) * scale_
                g_.nu = (nu_ if view_ is shared else nu_[::-1]) * u.Hz
                g_.response = view_
                fs_.append(g_)
            try:
                kept = []
                for g_ in fs_:
                    g_.normalize()
                    kept.append(np.array(g_.response, float, copy=True))
                ctx.event('normalize:filters-sharing-one-array')
                for jf, (g_, k_) in enumerate(zip(fs_, kept)):
                    if not probe.same(np.asarray(g_.response, float), k_):
                        ctx.violation('normalize:changes-another-filter', 'normalising a filter changed the response of another live filter built from the same array',
                                      {'wav': fw, 'response': shared0, 'filter': jf, 'was': k_, 'now': np.asarray(g_.response, float)})
                        break
                if not probe.same(shared, shared0):
                    ctx.event('normalize:callers-array-modified')
            except Exception as exc:
                ctx.raised(exc, 'normalize-raised', 'normalize raised: %r' % (exc,), {'wav': fw, 'response': resp})
        if (rng.random() < 0.5 or scaled is not None) and not int_resp:
            try:
                f.normalize()
            except Exception as exc:
                ctx.raised(exc, 'normalize-raised', 'normalize raised: %r' % (exc,), {'wav': fw, 'response': resp})
        # grid
        kind = str(rng.choice(['contains', 'contained', 'partial-lo', 'partial-hi', 'same-ends', 'disjoint', 'coincide'],
                              p=[0.25, 0.15, 0.15, 0.15, 0.1, 0.05, 0.15]))
        if kind == 'coincide':
            g = coinciding_grid(rng, np.sort(np.asarray(f.nu.to(u.Hz).value, float)))
            ctx.regime('edges:coincide')
        else:
            gw = grid_for(rng, fw, kind)
            g = np.sort(pkg.C_UM_HZ / gw)
            ctx.regime('overlap:' + kind)
        if len(g) < 2:
            continue
        gdesc = bool(rng.random() < 0.5)
        if gdesc:
            g = g[::-1]
        ctx.regime('grid:descending-nu' if gdesc else 'grid:ascending-nu')
        inside = np.sum((g > f.nu.value.min()) & (g < f.nu.value.max()))
        ctx.regime('grid:finer' if inside > len(fw) else 'grid:coarser')
        gunit = [u.Hz, u.GHz, u.THz][it % 3]       # the SED grid may be given in any frequency unit
        if gunit != u.Hz:
            ctx.regime('grid:not-in-Hz')
        try:
            f.rebin((g.copy() * u.Hz).to(gunit))
            if it % 3 == 0 or it % 7 == 1:
                # the same Filter object re-binned again onto other grids (same length, then different): no state may carry over
                g2 = g * (1 + 0.013 * np.arange(len(g)) / len(g))
                f.rebin(g2.copy() * u.Hz)
                f.rebin((g[::-1].copy() * u.Hz).to(u.GHz))
                f.rebin((g.copy() * u.Hz).to(gunit))
                f.normalize()                      # normalised *after* having been re-binned ...
                f.rebin(g.copy() * u.Hz)           # ... the next re-binning must use the normalised response
                f.response = f.response * 3.0      # response re-assigned
                f.rebin((g2.copy() * u.Hz).to(u.THz))
                ctx.event('rebin:same-filter-again')
        except Exception as exc:
            if kind == 'disjoint':
                ctx.event('disjoint-grid-refused(outside the quantifier)')
            else:
                ctx.raised(exc, 'rebin-raised', 'Filter.rebin raised: %r' % (exc,), {'filter_wav': fw, 'grid_nu': g, 'kind': kind})
        ctx.case(('rebin', it, ctx.shard), nontrivial=kind != 'disjoint',
                 sample={'filter_wav_um': fw, 'response': resp, 'grid_nu_hz': g, 'kind': kind} if it < 2 else None)

    # ---- whole packages through convolve_model_dir -------------------------------------
    n_pkg = 6 if ctx.quick else 100
    for ip in range(n_pkg):
        style = 'v1' if ip % 2 == 0 else 'v2'
        ctx.regime('pkg:' + style)
        n_m, n_ap, n_w = int(rng.integers(1, 6)), int(rng.integers(1, 4)), int(rng.choice([5, 12, 40, 80]))
        truth = convcheck.make_truth(rng, n_m, n_ap, n_w)
        pd = ctx.newdir('pk')
        if style == 'v1':
            pkg.build_v1(pd, truth, table_order=list(rng.permutation(n_m)), desc=rng.random(n_m) < 0.5, fmt='D')
        else:
            pkg.build_v2(pd, truth, descending_wav=bool(rng.random() < 0.5), unit=str(rng.choice(['mJy', 'Jy', 'uJy'])))
        filters = []
        for jf in range(int(rng.integers(1, 4))):
            fw, resp, central, kind = convcheck.make_filter_arrays(rng, truth.wav)
            filters.append(convcheck.build_filter('F%d' % jf, fw, resp, central, descending_nu=bool(rng.random() < 0.5),
                                                  normalize=bool(rng.random() < 0.6),          # the caller decides about normalisation
                                                  nu_unit=[None, u.GHz, u.THz][int(rng.integers(3))],
                                                  cw_unit=[None, u.nm, u.AA, u.mm][int(rng.integers(4))]))
            ctx.regime('filter:normalised' if abs(float(O.integral_exact(filters[-1].nu.to(u.Hz).value, filters[-1].response)) - 1) < 1e-9 else 'filter:not-normalised')
        # flat-spectrum filter: normalised, inside the SED range
        fw, resp, central, _ = convcheck.make_filter_arrays(rng, truth.wav, kind='inside')
        flat = convcheck.build_filter('FLAT', fw, resp, central, descending_nu=bool(rng.random() < 0.5))
        filters.append(flat)
        wit0 = {'style': style, 'n_models': n_m, 'n_ap': n_ap, 'n_wav': n_w, 'sed_wav': truth.wav}
        try:
            import copy as _copy
            filters_before = [_copy.deepcopy(f_) for f_ in filters]      # the curves as the caller handed them over
            convolve_model_dir(pd, filters, memmap=bool(rng.random() < 0.5))
        except Exception as exc:
            ctx.raised(exc, 'convolve-raised', 'convolve_model_dir raised: %r' % (exc,), wit0)
            ctx.rmdir(pd)
            continue
        for flt in filters_before:
            ref_f, ref_e, R = convcheck.reference_convolution(truth, flt)
            got = convcheck.read_convolved_plain(os.path.join(pd, 'convolved', flt.name + '.fits'))
            rows = [truth.index(nm) for nm in got['names']] if sorted(got['names']) == sorted(truth.names) else None
            wit = dict(wit0, filter=flt.name, filter_nu=flt.nu.value, filter_response=flt.response)
            if rows is None or got['flux'].shape != ref_f.shape:
                ctx.violation('file:layout', 'convolved file has wrong names/shape', dict(wit, names=got['names']))
                continue
            ctx.event('file:checked')
            scale = 1e-9 * np.abs(ref_f[rows]) + 1e-12 * np.sum(np.abs(truth.flux[rows][:, :, ::-1] * R), axis=2)
            if np.any(np.abs(got['flux'] - ref_f[rows]) > scale):
                ctx.violation('file:flux-not-sum-F-R', 'convolved flux is not sum_i F(nu_i) R_i', dict(wit, got=got['flux'][0], expected=ref_f[rows][0]))
            if np.any(np.abs(got['err'] - ref_e[rows]) > 1e-9 * np.abs(ref_e[rows]) + 1e-300):
                ctx.violation('file:error-not-quadrature', 'convolved error is not sqrt(sum_i (E_i R_i)^2)', dict(wit, got=got['err'][0], expected=ref_e[rows][0]))
            if got['filtwav'] is None or abs(got['filtwav'] / flt.central_wavelength.to(u.micron).value - 1) > 1e-12:
                ctx.violation('file:filtwav', 'the central wavelength written to the file is not the filter\'s (in micron)', dict(wit, got=got['filtwav'], expected=flt.central_wavelength))
            ctx.case(('file', ip, flt.name, ctx.shard), nontrivial=bool(np.any(R > 0)))
        # the same package convolved again with a filter of the same NAME whose response changed (overwrite): no stale weights
        if ip % 2 == 0 and filters:
            f0 = filters[0]
            f1 = convcheck.build_filter(f0.name, pkg.C_UM_HZ / np.sort(f0.nu.to(u.Hz).value)[::-1], np.asarray(f0.response)[np.argsort(f0.nu.to(u.Hz).value)][::-1] * np.linspace(0.3, 2.0, len(f0.response)),
                                        f0.central_wavelength.to(u.micron).value, normalize=False)
            try:
                convolve_model_dir(pd, [f1], overwrite=True)
                ref_f, ref_e, R = convcheck.reference_convolution(truth, f1)
                got = convcheck.read_convolved_plain(os.path.join(pd, 'convolved', f1.name + '.fits'))
                rows = [truth.index(nm) for nm in got['names']]
                ctx.event('reconvolved:same-name-new-response')
                scale = 1e-9 * np.abs(ref_f[rows]) + 1e-12 * np.sum(np.abs(truth.flux[rows][:, :, ::-1] * R), axis=2)
                if np.any(np.abs(got['flux'] - ref_f[rows]) > scale):
                    ctx.violation('file:stale-weights-after-reconvolution', 'convolving again with a changed filter of the same name did not use the new response',
                                  dict(wit0, filter=f1.name, got=got['flux'][0], expected=ref_f[rows][0]))
            except Exception as exc:
                ctx.raised(exc, 'convolve-raised:overwrite', 'convolve_model_dir(overwrite=True) raised: %r' % (exc,), wit0)
        ctx.rmdir(pd)
        # flat spectrum F_nu = c through a normalised filter inside the SED range returns c
        c = float(10 ** rng.uniform(-3, 3))
        tflat = pkg.Truth(['flat'], truth.wav, np.full((1, 1, n_w), c), np.full((1, 1, n_w), c * 0.1))
        pd = ctx.newdir('pf')
        if style == 'v1':
            pkg.build_v1(pd, tflat, fmt='D')
        else:
            pkg.build_v2(pd, tflat)
        try:
            convolve_model_dir(pd, [flat])
            got = convcheck.read_convolved_plain(os.path.join(pd, 'convolved', 'FLAT.fits'))
            ctx.event('flat-spectrum')
            if abs(got['flux'][0, 0] - c) > 1e-9 * c:
                ctx.violation('flat-spectrum-not-recovered', 'a normalised filter inside the SED range does not return c for F_nu = c',
                              {'c': c, 'got': float(got['flux'][0, 0]), 'style': style, 'sed_wav': truth.wav, 'filter_nu': flat.nu.value,
                               'filter_response': flat.response})
        except Exception as exc:
            ctx.raised(exc, 'convolve-raised', 'convolve_model_dir raised: %r' % (exc,), wit0)
        ctx.rmdir(pd)
    mixed_grid_packages(ctx, rng, convolve_model_dir)


def mixed_grid_packages(ctx, rng, convolve_model_dir):
    """per-file packages whose SED files are tabulated on *different* frequency grids (same apertures): grids of equal
    length sharing both end points but sampled differently inside, grids of different length, and the same grids in
    the other storage order; consecutive files (sorted order) alternate between grids so that the filters must be
    re-binned from one SED to the next"""
    for ip in range(3 if ctx.quick else 25):
        n_w = int(rng.choice([6, 12, 30]))
        lo, hi = float(gen.loguniform(rng, 0.05, 1.0)), float(gen.loguniform(rng, 50.0, 2000.0))
        grids = []
        for g in range(int(rng.integers(2, 4))):
            if g == 1 and ip % 2 == 1:            # the previous grid perturbed by 1e-7..1e-4 relative (same length): still a different grid
                grids.append(grids[0] * (1 + 10 ** rng.uniform(-7, -4) * rng.uniform(-1, 1, len(grids[0]))))
                grids[-1].sort()
                ctx.regime('grids:nearly-equal')
            elif g < 2 or rng.random() < 0.5:      # same length, same end points, different interior sampling
                inner = np.sort(gen.loguniform(rng, lo * 1.01, hi * 0.99, n_w - 2))
                grids.append(np.concatenate([[lo], inner, [hi]]))
            else:                                 # a different length
                grids.append(np.sort(gen.loguniform(rng, lo, hi, n_w + int(rng.integers(1, 6)))))
        n_ap = int(rng.integers(1, 3))
        aps = gen.aperture_table(rng, n_ap) if n_ap > 1 else None
        n_m = int(rng.integers(len(grids) + 1, 9))
        names = ['mix_%02d' % i for i in range(n_m)]
        which = [i % len(grids) for i in range(n_m)]          # alternate in sorted file order
        pd = ctx.newdir('mx')
        os.makedirs(os.path.join(pd, 'seds'))
        pkg.write_conf(pd, aperture_dependent=(n_ap > 1))
        pkg.write_parameters(pd, [names[i] for i in rng.permutation(n_m)], {})
        truths = []
        for i, nm in enumerate(names):
            w = grids[which[i]]
            fl = 10.0 ** rng.uniform(-1, 2, (n_ap, len(w))) * (np.arange(1, n_ap + 1)[:, None])
            er = fl * rng.uniform(0.01, 0.2, fl.shape)
            t = pkg.Truth([nm], w, fl[None], er[None], apertures=aps)
            truths.append(t)
            pkg.write_sed_file(pkg.sed_path(pd, nm), nm, t.wav, t.nu, aps, fl, er, descending_wav=bool(rng.random() < 0.5), fmt='D')
        filters = []
        for jf in range(2):
            fw, resp, central, kind = convcheck.make_filter_arrays(rng, grids[0], kind=str(rng.choice(['inside', 'partial-lo', 'contains'])))
            filters.append(convcheck.build_filter('X%d' % jf, fw, resp, central, descending_nu=bool(rng.random() < 0.5)))
        wit0 = {'n_models': n_m, 'n_ap': n_ap, 'grids': [list(g) for g in grids], 'grid_of_model': which}
        try:
            convolve_model_dir(pd, filters)
        except Exception as exc:
            ctx.raised(exc, 'convolve-raised:mixed-grids', 'convolve_model_dir raised on SEDs with different frequency grids: %r' % (exc,), wit0)
            ctx.rmdir(pd)
            continue
        ctx.regime('pkg:mixed-grids')
        for flt in filters:
            got = convcheck.read_convolved_plain(os.path.join(pd, 'convolved', flt.name + '.fits'))
            for r, nm in enumerate(got['names']):
                t = truths[names.index(nm)]
                ref_f, ref_e, R = convcheck.reference_convolution(t, flt)
                ctx.event('file:checked')
                tol = 1e-9 * np.abs(ref_f[0]) + 1e-12 * np.sum(np.abs(t.flux[0][:, ::-1] * R), axis=1)
                if np.any(np.abs(got['flux'][r] - ref_f[0]) > tol) or np.any(np.abs(got['err'][r] - ref_e[0]) > 1e-9 * np.abs(ref_e[0]) + 1e-300):
                    ctx.violation('file:flux-not-sum-F-R:mixed-grids', "an SED's convolved flux/error was not computed with the response binned onto that SED's own frequency grid",
                                  dict(wit0, filter=flt.name, model=nm, got=got['flux'][r], expected=ref_f[0]))
                    break
            ctx.case(('mixed', ip, flt.name, ctx.shard), nontrivial=True)
        ctx.rmdir(pd)


def replay(ctx, rec):
    ctx.inconclusive('replay: re-run ./check C06 with VERIF_SEED=%s; witnesses hold the literal filter and grid' % rec.get('seed'))
