"""
Reference models.  Written from the property statements and the docs pages, with
different numerics from the implementation (longdouble normal equations, exact
rationals, python floats), so that a shared mistake is unlikely.
"""
from __future__ import annotations

import bisect
import math
from fractions import Fraction

import numpy as np

LD = np.longdouble
LN10 = math.log(10.0)


# --------------------------------------------------------------------------
# C03 data transform
# --------------------------------------------------------------------------

def transform(valid, flux, error):
    """flag -> (log10 F, sigma_log / confidence, weight) per the data-format page"""
    valid = np.asarray(valid)
    n = len(valid)
    logf = np.zeros(n)
    sig = np.zeros(n)
    w = np.zeros(n)
    for j in range(n):
        v, f, e = int(valid[j]), float(flux[j]), float(error[j])
        if v == 1:
            logf[j] = math.log10(f) - 0.5 * (e / f) ** 2 / LN10
            sig[j] = abs(e / f) / LN10
            w[j] = 1.0 / sig[j] ** 2
        elif v == 4:
            logf[j] = f
            sig[j] = e
            w[j] = 1.0 / e ** 2
        elif v in (2, 3):
            logf[j] = math.log10(f)
            sig[j] = e          # confidence
    return logf, sig, w


def penalty(conf):
    if conf >= 1.0:
        return 1e30
    p = -2.0 * math.log(1.0 - conf)
    return 1e30 if math.isinf(p) else p


def limit_penalties(valid, logf, conf, pred, band=1e-9):
    """returns (sure, maybe): penalties that certainly apply, and those within the
    don't-care band of the limit (|pred - limit| <= band dex)"""
    sure = 0.0
    maybe = []
    for j in range(len(valid)):
        v = int(valid[j])
        if v not in (2, 3):
            continue
        d = float(pred[j]) - float(logf[j])
        bad = (d < 0) if v == 2 else (d > 0)
        p = penalty(float(conf[j]))
        if abs(d) <= band:
            maybe.append(p)
        elif bad:
            sure += p
    return sure, maybe


# --------------------------------------------------------------------------
# C01: bounded 2-parameter weighted least squares
# --------------------------------------------------------------------------

class Fit2D(object):
    __slots__ = ('av', 'sc', 'obj', 'av_unc', 'sc_unc', 'cond', 'swr2', 'clamped')


def fit2d(r, w, k, lo, hi):
    """minimise sum w (r - A k + 2 S)^2 over lo<=A<=hi, S real  (longdouble)"""
    r = np.asarray(r, LD)
    w = np.asarray(w, LD)
    k = np.asarray(k, LD)
    p2 = LD(-2.0)
    m11 = np.sum(w * k * k)
    m12 = np.sum(w * k) * p2
    m22 = np.sum(w) * p2 * p2
    c1 = np.sum(w * r * k)
    c2 = np.sum(w * r) * p2
    det = m11 * m22 - m12 * m12
    out = Fit2D()
    out.cond = float(det / (m11 * m22)) if m11 > 0 and m22 > 0 else 0.0
    out.swr2 = float(np.sum(w * r * r))
    if det != 0:
        a = (m22 * c1 - m12 * c2) / det
        s = (m11 * c2 - m12 * c1) / det
    else:
        a, s = LD(np.nan), LD(np.nan)
    out.av_unc, out.sc_unc = float(a), float(s)
    out.clamped = 0
    if a < lo:
        a, out.clamped = LD(lo), -1
    elif a > hi:
        a, out.clamped = LD(hi), +1
    if out.clamped:
        s = np.sum(w * (r - a * k)) * p2 / m22
    out.av, out.sc = float(a), float(s)
    out.obj = float(np.sum(w * (r - a * k - s * p2) ** 2))
    return out


def objective2d(r, w, k, av, sc):
    r = np.asarray(r, LD)
    w = np.asarray(w, LD)
    k = np.asarray(k, LD)
    return float(np.sum(w * (r - LD(av) * k + 2 * LD(sc)) ** 2))


# --------------------------------------------------------------------------
# C02: distance grid
# --------------------------------------------------------------------------

def interp_aperture(ap_tab, vals, a):
    """linear interpolation in aperture, clamp above the table, refuse below.
    vals[..., n_ap] along the last axis"""
    ap_tab = [float(x) for x in ap_tab]
    if len(ap_tab) == 1:
        return np.asarray(vals)[..., 0]
    a = float(a)
    if a >= ap_tab[-1]:
        return np.asarray(vals)[..., -1]
    if a < ap_tab[0]:
        if a >= ap_tab[0] * (1 - 1e-12):      # on the first node up to the round-off of theta*d: the first tabulated value
            return np.asarray(vals)[..., 0]
        raise ValueError('below table')
    i = bisect.bisect_right(ap_tab, a) - 1
    i = min(max(i, 0), len(ap_tab) - 2)
    t = (a - ap_tab[i]) / (ap_tab[i + 1] - ap_tab[i])
    v = np.asarray(vals, float)
    return v[..., i] + t * (v[..., i + 1] - v[..., i])


def optimal_av(r, w, k):
    r = np.asarray(r, LD)
    w = np.asarray(w, LD)
    k = np.asarray(k, LD)
    return float(np.sum(w * r * k) / np.sum(w * k * k))


def objective1d(r, w, k, av):
    r = np.asarray(r, LD)
    w = np.asarray(w, LD)
    k = np.asarray(k, LD)
    return float(np.sum(w * (r - LD(av) * k) ** 2))


# --------------------------------------------------------------------------
# C05: selector semantics (docs/select_syntax.rst)
# --------------------------------------------------------------------------

def keep_count(chi2, n_data, sel):
    """number of fits the syntax page promises, for a ranked chi2 vector.  IEEE
    comparisons: NaN and inf-inf compare false => dropped.  Returns (count, is_prefix)"""
    form, v = sel
    n = len(chi2)
    if n == 0:
        return 0, True
    if form == 'A':
        return n, True
    if form == 'N':
        return min(int(v), n), True
    best = float(chi2[0])
    flags = []
    for c in chi2:
        c = float(c)
        if form == 'C':
            q = c
        elif form == 'D':
            q = c - best
        elif form == 'E':
            q = _div(c, n_data)
        elif form == 'F':
            q = _div(c - best, n_data)
        else:
            raise ValueError(form)
        flags.append(q < v)
    cnt = sum(flags)
    return cnt, all(flags[:cnt]) and not any(flags[cnt:])


def _div(a, b):
    try:
        return a / b
    except ZeroDivisionError:
        if a != a or a == 0:
            return float('nan')
        return math.copysign(float('inf'), a)


# --------------------------------------------------------------------------
# C06: exact rebinning of a piecewise-linear response
# --------------------------------------------------------------------------

def _pl_integral(xs, ys, a, b):
    """exact integral over [a,b] (a<=b) of the piecewise-linear curve through (xs, ys),
    xs strictly increasing Fractions; [a,b] inside [xs[0], xs[-1]]"""
    if a >= b:
        return Fraction(0)
    total = Fraction(0)
    i = max(bisect.bisect_right(xs, a) - 1, 0)
    while i < len(xs) - 1 and xs[i] < b:
        x0, x1 = xs[i], xs[i + 1]
        lo, hi = max(a, x0), min(b, x1)
        if hi > lo:
            slope = (ys[i + 1] - ys[i]) / (x1 - x0)
            ylo = ys[i] + slope * (lo - x0)
            yhi = ys[i] + slope * (hi - x0)
            total += (ylo + yhi) / 2 * (hi - lo)
        i += 1
    return total


def rebin_exact(f_nu, f_resp, nu_new):
    """R_i = exact integral of the filter's piecewise-linear response over the bin of
    nu_new[i] (midpoint edges; first/last bin end at the grid ends), restricted to the
    filter range.  Inputs are floats (any storage order); arithmetic is exact on them,
    except that midpoints are formed in float64 as the statement's 'midpoint' (the
    implementation does the same; a Fraction midpoint would differ by <= 0.5 ulp)."""
    fx = [Fraction(float(x)) for x in f_nu]
    fy = [Fraction(float(y)) for y in f_resp]
    if fx[0] > fx[-1]:
        fx, fy = fx[::-1], fy[::-1]
    g = [float(x) for x in nu_new]
    n = len(g)
    lo_f, hi_f = fx[0], fx[-1]
    out = []
    for i in range(n):
        e1 = g[0] if i == 0 else 0.5 * (g[i - 1] + g[i])
        e2 = g[-1] if i == n - 1 else 0.5 * (g[i] + g[i + 1])
        a, b = Fraction(e1), Fraction(e2)
        if a > b:
            a, b = b, a
        a = min(max(a, lo_f), hi_f)
        b = min(max(b, lo_f), hi_f)
        out.append(_pl_integral(fx, fy, a, b))
    return out


def integral_exact(xs, ys, a=None, b=None):
    fx = [Fraction(float(x)) for x in xs]
    fy = [Fraction(float(y)) for y in ys]
    if fx[0] > fx[-1]:
        fx, fy = fx[::-1], fy[::-1]
    a = fx[0] if a is None else min(max(Fraction(float(a)), fx[0]), fx[-1])
    b = fx[-1] if b is None else min(max(Fraction(float(b)), fx[0]), fx[-1])
    if a > b:
        a, b = b, a
    return _pl_integral(fx, fy, a, b)


# --------------------------------------------------------------------------
# C14: extinction pattern
# --------------------------------------------------------------------------

def lin_interp(xs, ys, x):
    """python linear interpolation, xs increasing; None outside"""
    if x < xs[0] or x > xs[-1]:
        return None
    i = bisect.bisect_right(xs, x) - 1
    if i >= len(xs) - 1:
        return ys[-1]
    t = (x - xs[i]) / (xs[i + 1] - xs[i])
    return ys[i] + t * (ys[i + 1] - ys[i])


def ext_pattern(wav_um, chi, query_um):
    """-0.4 chi(lambda)/chi(0.55um); 0 outside the table"""
    xs = [float(x) for x in wav_um]
    ys = [float(y) for y in chi]
    cv = lin_interp(xs, ys, 0.55)
    out = []
    for q in query_um:
        c = lin_interp(xs, ys, float(q))
        out.append(0.0 if c is None else -0.4 * c / cv)
    return np.array(out)


# --------------------------------------------------------------------------
# misc helpers
# --------------------------------------------------------------------------

def close(a, b, rtol=1e-9, atol=0.0):
    a = np.asarray(a, float)
    b = np.asarray(b, float)
    if a.shape != b.shape:
        return False
    with np.errstate(all='ignore'):
        ok = np.abs(a - b) <= atol + rtol * np.maximum(np.abs(a), np.abs(b))
    ok |= (a == b)
    ok |= (np.isnan(a) & np.isnan(b))
    return bool(np.all(ok))


def maxrel(a, b):
    a = np.asarray(a, float)
    b = np.asarray(b, float)
    with np.errstate(all='ignore'):
        d = np.abs(a - b) / np.maximum(np.maximum(np.abs(a), np.abs(b)), 1e-300)
    d = np.where(a == b, 0.0, d)
    return float(np.nanmax(d)) if d.size else 0.0
