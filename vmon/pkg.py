"""
Package factory: writes model packages (per-file "v1", cube "v2"), convolved-flux
files, parameter tables and filter text files with its OWN astropy.io.fits code,
following docs/creating_model_packages.rst, so that ground truth never passes
through the code under test.  (A fraction of packages can additionally be written
through the repository's SED.write / SEDCube.write, as the docs tell users to.)
"""
from __future__ import annotations

import gzip
import os
import shutil

import numpy as np
from astropy.io import fits

C_M_S = 299792458.0          # exact
C_UM_HZ = C_M_S * 1e6        # nu[Hz] = C_UM_HZ / wav[micron]
KPC_CM = 3.0856775814913673e21


class Truth(object):
    """What a package was generated from.  Arrays are float64 holding exactly the
    values as stored on disk (already rounded to float32 when stored as 1E)."""

    def __init__(self, names, wav, flux, err, apertures=None, params=None, nu=None):
        self.names = list(names)                  # generation order
        self.wav = np.asarray(wav, float)         # micron, ascending
        self.nu = C_UM_HZ / self.wav if nu is None else np.asarray(nu, float)
        self.flux = np.asarray(flux, float)       # [m, a, w]  mJy
        self.err = np.asarray(err, float)
        self.apertures = None if apertures is None else np.asarray(apertures, float)  # AU ascending
        self.params = params or {}                # col -> array[m] (generation order)

    n_models = property(lambda s: len(s.names))
    n_ap = property(lambda s: s.flux.shape[1])
    n_wav = property(lambda s: len(s.wav))

    def index(self, name):
        return self.names.index(name.strip())


def r32(x):
    return np.asarray(x, np.float32).astype(np.float64)


def _col(name, arr, fmt, unit=None, dim=None):
    return fits.Column(name=name, format=fmt, array=arr, unit=unit, dim=dim)


YESNO = 0          # how the yes/no flag of models.conf is spelled (the reader takes y/yes/n/no in any case): set by a check to vary it


def write_conf(model_dir, name='verif', length_subdir=0, aperture_dependent=False,
               logd_step=0.02, version=1):
    yes, no = [('yes', 'no'), ('Yes', 'No'), ('YES', 'NO'), ('y', 'n'), ('Y', 'N')][YESNO % 5]
    with open(os.path.join(model_dir, 'models.conf'), 'w') as f:
        f.write('name = %s\n' % name)
        f.write('length_subdir = %d\n' % length_subdir)
        f.write('aperture_dependent = %s\n' % (yes if aperture_dependent else no))
        f.write('logd_step = %r\n' % logd_step)
        if version != 1:
            f.write('version = %d\n' % version)


def write_parameters(model_dir, names, params, gz=False, pad=False):
    """names: row order to store; params: col -> values in that same order"""
    width = 30
    arr = np.array([n.ljust(width) if pad else n for n in names], dtype='S%d' % width)
    cols = [_col('MODEL_NAME', arr, '%dA' % width)]
    for k, v in params.items():
        v = np.asarray(v)
        if v.dtype.kind in 'US':
            cols.append(_col(k, v.astype('S12'), '12A'))
        elif v.dtype.kind in 'iu':          # a whole-number column stored as 64-bit integers (a grid index, a flag)
            cols.append(_col(k, v.astype('i8'), 'K'))
        elif v.dtype == np.float32:
            cols.append(_col(k, v, 'E'))
        else:
            cols.append(_col(k, v.astype(float), 'D'))
    hdu0 = fits.PrimaryHDU()
    hdu0.header['NMODELS'] = len(names)
    hl = fits.HDUList([hdu0, fits.BinTableHDU.from_columns(cols)])
    path = os.path.join(model_dir, 'parameters.fits')
    hl.writeto(path, overwrite=True)
    if gz:
        _gz(path)
    return path + ('.gz' if gz else '')


def _gz(path):
    with open(path, 'rb') as fi, gzip.open(path + '.gz', 'wb') as fo:
        shutil.copyfileobj(fi, fo)
    os.remove(path)


AP_UNITS = {'AU': 1.0, 'pc': 206264.80624709636, 'cm': 1.0 / 1.495978707e13}      # AU per unit


def write_sed_file(path, name, wav, nu, apertures, flux, err, descending_wav=True,
                   fmt='D', legacy_units=True, flux_unit=None, distance_cm=None,
                   gz=False, ap_unit=None, nu_unit=None, err_unit=None):
    """One SED file per docs: HDU1 WAVELENGTH/FREQUENCY, HDU2 APERTURE, HDU3
    TOTAL_FLUX/TOTAL_FLUX_ERR (NAP rows of NWAV-vectors).  `wav` ascending on input;
    stored descending in wavelength (as the original packages are) or ascending."""
    wav = np.asarray(wav, float)
    nu = np.asarray(nu, float)
    flux = np.asarray(flux, float).reshape(-1, len(wav))
    err = np.asarray(err, float).reshape(-1, len(wav))
    if descending_wav:
        wav, nu, flux, err = wav[::-1], nu[::-1], flux[:, ::-1], err[:, ::-1]
    n_wav = len(wav)
    hdu0 = fits.PrimaryHDU()
    hdu0.header['VERSION'] = 1
    hdu0.header['MODEL'] = name
    hdu0.header['IMAGE'] = False
    hdu0.header['WAVLGHTS'] = True
    hdu0.header['APERTURS'] = True
    hdu0.header['SEDS'] = True
    hdu0.header['NWAV'] = n_wav
    hdu0.header['NAP'] = flux.shape[0]
    if distance_cm is not None:
        hdu0.header['DISTANCE'] = distance_cm
    uw, uf = ('MICRONS', 'HZ') if legacy_units else ('um', 'Hz')
    ufl = flux_unit or ('MJY' if legacy_units else 'mJy')
    if nu_unit is not None:          # (unit string, Hz per unit): frequencies stored in e.g. GHz
        uf, per = nu_unit
        nu = nu / per
    hdu1 = fits.BinTableHDU.from_columns([_col('WAVELENGTH', wav, fmt, uw),
                                          _col('FREQUENCY', nu, fmt, uf)])
    hdu1.header['EXTNAME'] = 'WAVELENGTHS'
    if apertures is None:
        ap, apu = np.array([1e-30]), 'cm'
    else:
        ap, apu = np.asarray(apertures, float) / AP_UNITS[ap_unit or 'AU'], (ap_unit or 'AU')
    hdu2 = fits.BinTableHDU.from_columns([_col('APERTURE', ap, fmt, apu)])
    hdu2.header['EXTNAME'] = 'APERTURES'
    hdu3 = fits.BinTableHDU.from_columns([
        _col('TOTAL_FLUX', flux, '%d%s' % (n_wav, fmt), ufl),
        _col('TOTAL_FLUX_ERR', err, '%d%s' % (n_wav, fmt), err_unit or ufl)])
    hdu3.header['EXTNAME'] = 'SEDS'
    fits.HDUList([hdu0, hdu1, hdu2, hdu3]).writeto(path, overwrite=True)
    if gz:
        _gz(path)


def write_convolved_file(path, names, apertures, flux, err, filtwav, fmt='D', gz=False,
                         pad_names=False, unit='mJy', ap_unit='AU'):
    """convolved/<filter>.fits: flux[m, a] in mJy; apertures AU or None"""
    flux = np.asarray(flux, float)
    err = np.asarray(err, float)
    n_ap = flux.shape[1]
    hdu0 = fits.PrimaryHDU()
    hdu0.header['FILTWAV'] = float(filtwav)
    hdu0.header['NMODELS'] = len(names)
    hdu0.header['NAP'] = n_ap
    arr = np.array([n.ljust(30) if pad_names else n for n in names], dtype='S30')
    if n_ap == 1 and apertures is None:
        f2, e2, ffmt = flux[:, 0], err[:, 0], fmt
    else:
        f2, e2, ffmt = flux, err, '%d%s' % (n_ap, fmt)
    hdu1 = fits.BinTableHDU.from_columns([_col('MODEL_NAME', arr, '30A'),
                                          _col('TOTAL_FLUX', f2, ffmt, unit),
                                          _col('TOTAL_FLUX_ERR', e2, ffmt, unit)],
                                         name='CONVOLVED FLUXES')
    hdus = [hdu0, hdu1]
    if apertures is not None:
        hdus.append(fits.BinTableHDU.from_columns(
            [_col('APERTURE', np.asarray(apertures, float), fmt, ap_unit)], name='APERTURES'))
    fits.HDUList(hdus).writeto(path, overwrite=True)
    if gz:
        _gz(path)


def write_cube_file(path, names, wav, apertures, val, unc, descending_wav=False,
                    dtype='f8', unit='mJy', distance_cm=KPC_CM, with_nu=True, valid=None, ap_unit='AU'):
    wav = np.asarray(wav, float)
    val = np.asarray(val, float)
    if descending_wav:
        wav = wav[::-1]
        val = val[:, :, ::-1]
        unc = None if unc is None else np.asarray(unc)[:, :, ::-1]
    hdu0 = fits.PrimaryHDU(data=np.ones(len(names), int) if valid is None else np.asarray(valid, int))
    hdu0.header['DISTANCE'] = distance_cm
    hdu0.header['NWAV'] = len(wav)
    if apertures is not None:
        hdu0.header['NAP'] = len(apertures)
    hl = [hdu0]
    hl.append(fits.BinTableHDU.from_columns(
        [_col('MODEL_NAME', np.array(names, dtype='S30'), '30A')], name='MODEL_NAMES'))
    cols = [_col('WAVELENGTH', wav, 'D', 'um')]
    if with_nu:
        cols.append(_col('FREQUENCY', C_UM_HZ / wav, 'D', 'Hz'))
    hl.append(fits.BinTableHDU.from_columns(cols, name='SPECTRAL_INFO'))
    if apertures is not None:
        hl.append(fits.BinTableHDU.from_columns(
            [_col('APERTURE', np.asarray(apertures, float) / AP_UNITS[ap_unit], 'D', ap_unit)], name='APERTURES'))
    h = fits.ImageHDU(np.ascontiguousarray(val, dtype=dtype), name='VALUES')
    h.header['BUNIT'] = unit
    hl.append(h)
    if unc is not None:
        h = fits.ImageHDU(np.ascontiguousarray(unc, dtype=dtype), name='UNCERTAINTIES')
        h.header['BUNIT'] = unit
        hl.append(h)
    fits.HDUList(hl).writeto(path, overwrite=True)


def sed_path(model_dir, name, length_subdir=0, gz=False):
    if length_subdir:
        d = os.path.join(model_dir, 'seds', name[:length_subdir])
        os.makedirs(d, exist_ok=True)
    else:
        d = os.path.join(model_dir, 'seds')
    return os.path.join(d, name + '_sed.fits')


def build_v1(model_dir, truth, table_order=None, aperture_dependent=None, logd_step=0.02,
             length_subdir=0, desc=None, gz=None, fmt='D', legacy_units=True,
             with_seds=True, param_gz=False, pad_names=False, ap_unit=None):
    """Per-file package.  table_order: indices into truth.names giving the row order of
    parameters.fits.  desc/gz: per-model booleans (storage order / compression)."""
    os.makedirs(os.path.join(model_dir, 'seds'), exist_ok=True)
    os.makedirs(os.path.join(model_dir, 'convolved'), exist_ok=True)
    n = truth.n_models
    if aperture_dependent is None:
        aperture_dependent = truth.apertures is not None
    write_conf(model_dir, length_subdir=length_subdir, aperture_dependent=aperture_dependent,
               logd_step=logd_step, version=1)
    order = list(range(n)) if table_order is None else list(table_order)
    write_parameters(model_dir, [truth.names[i] for i in order],
                     {k: np.asarray(v)[order] for k, v in truth.params.items()},
                     gz=param_gz, pad=pad_names)
    if with_seds:
        for i, name in enumerate(truth.names):
            p = sed_path(model_dir, name, length_subdir)
            write_sed_file(p, name, truth.wav, truth.nu, truth.apertures, truth.flux[i], truth.err[i],
                           descending_wav=True if desc is None else bool(desc[i]),
                           fmt=fmt, legacy_units=legacy_units,
                           gz=False if gz is None else bool(gz[i]), ap_unit=ap_unit)
    return order


def build_v2(model_dir, truth, aperture_dependent=None, logd_step=0.02, descending_wav=False,
             dtype='f8', unit='mJy', with_unc=True, ap_unit='AU', ap_order=None):
    """ap_order: the order in which the apertures (and the matching axis of the values) are stored in the cube (default: increasing)"""
    os.makedirs(os.path.join(model_dir, 'convolved'), exist_ok=True)
    if aperture_dependent is None:
        aperture_dependent = truth.apertures is not None
    write_conf(model_dir, aperture_dependent=aperture_dependent, logd_step=logd_step, version=2)
    write_parameters(model_dir, truth.names, truth.params)
    sc = {'mJy': 1.0, 'Jy': 1e-3, 'uJy': 1e3}[unit]        # truth is in mJy; the cube may be stored in another unit (BUNIT)
    aps_, flux_, err_ = truth.apertures, truth.flux, truth.err
    if ap_order is not None and truth.apertures is not None:
        o_ = list(ap_order)
        aps_, flux_, err_ = np.asarray(truth.apertures)[o_], truth.flux[:, o_, :], truth.err[:, o_, :]
    write_cube_file(os.path.join(model_dir, 'flux.fits'), truth.names, truth.wav, aps_,
                    flux_ * sc, err_ * sc if with_unc else None, descending_wav=descending_wav, dtype=dtype, unit=unit, ap_unit=ap_unit)


def write_filter_text(path, wav_um, response, central, descending=False):
    wav_um = np.asarray(wav_um, float)
    response = np.asarray(response, float)
    if descending:
        wav_um, response = wav_um[::-1], response[::-1]
    with open(path, 'w') as f:
        f.write('# wav = %r\n' % float(central))
        for w, r in zip(wav_um, response):
            f.write('%r %r\n' % (float(w), float(r)))
