"""
Launcher:  ./check <Cnn> [--tier quick|thorough] [--replay <path>] [--shards N]

Runs the property module in `nshards` fresh interpreters (subprocess.run with a
timeout each; never multiprocessing.Pool), merges what the monitors observed,
classifies violations against KNOWN_FINDINGS.txt, writes evidence/<id>.json and
prints the verdict lines.

exit 0  held on everything observed (KNOWN-FINDING lines allowed)
exit 1  VIOLATION property=<id> replay=<path>
exit 2  INCONCLUSIVE property=<id> reason=...
"""
from __future__ import annotations

import argparse
import concurrent.futures
import json
import os
import shutil
import subprocess
import sys
import tempfile
import time

HERE = os.path.dirname(os.path.dirname(os.path.abspath(__file__)))
PY = '/venv/bin/python'

LEVELS = {'C19': 'fault_enumeration'}


def load_known_findings():
    findings = {}
    path = os.path.join(HERE, 'KNOWN_FINDINGS.txt')
    if not os.path.exists(path):
        return findings
    for line in open(path):
        line = line.strip()
        if not line.startswith('finding:'):
            continue  # 'fixed:' lines and comments suppress nothing
        fields = dict(tok.split('=', 1) for tok in line.split()[1:] if '=' in tok)
        if 'property' in fields and 'key' in fields:
            what = line.split('key=' + fields['key'], 1)[1].strip()
            findings[(fields['property'], fields['key'])] = what
    return findings


def _die_with_parent():
    """shards must not outlive the launcher (a killed or timed-out check would otherwise leave 16 busy interpreters)"""
    try:
        import ctypes
        import signal
        ctypes.CDLL('libc.so.6', use_errno=True).prctl(1, signal.SIGKILL)      # PR_SET_PDEATHSIG
    except Exception:
        pass


def run_shard(pid, tier, seed, shard, nshards, outdir, timeout):
    out = os.path.join(outdir, 'shard%02d.json' % shard)
    cmd = [PY, '-B', '-m', 'vmon.shard', pid, '--tier', tier, '--seed', str(seed),
           '--shard', str(shard), '--nshards', str(nshards), '--out', out]
    env = dict(os.environ)
    env.update(VERIF_SCRATCH=os.path.join(outdir, 'scratch-%d' % shard), PYTHONDONTWRITEBYTECODE='1', PYTHONHASHSEED='0', MPLBACKEND='Agg',
               OMP_NUM_THREADS='1', OPENBLAS_NUM_THREADS='1', MKL_NUM_THREADS='1')
    debug = bool(os.environ.get('VMON_DEBUG'))
    t0 = time.time()
    try:
        p = subprocess.run(cmd, cwd=HERE, env=env, timeout=timeout, preexec_fn=_die_with_parent,
                           stdin=subprocess.DEVNULL,
                           stdout=None if debug else subprocess.DEVNULL,
                           stderr=None if debug else subprocess.DEVNULL)
        rc = p.returncode
    except subprocess.TimeoutExpired:
        rc = 'watchdog'
    res = None
    if os.path.exists(out):
        try:
            res = json.load(open(out))
        except Exception as exc:  # truncated result file
            res = None
            rc = 'bad-result-file: %r' % (exc,)
    return shard, rc, res, time.time() - t0


def main(argv=None):
    ap = argparse.ArgumentParser()
    ap.add_argument('pid')
    ap.add_argument('--tier', default=os.environ.get('VERIF_TIER', 'quick'),
                    choices=['quick', 'thorough'])
    ap.add_argument('--replay', default=None)
    ap.add_argument('--shards', type=int, default=None)
    args = ap.parse_args(argv)

    pid = args.pid.upper()
    tier = args.tier
    if tier not in ('quick', 'thorough'):
        print('INCONCLUSIVE property=%s reason=unknown tier %r (quick | thorough)' % (pid, tier))
        return 2
    try:
        seed = int(os.environ.get('VERIF_SEED', '0'))
    except ValueError:
        seed = 0

    modpath = os.path.join(HERE, 'vmon', 'props', pid.lower() + '.py')
    if not os.path.exists(modpath):
        print('INCONCLUSIVE property=%s reason=no-such-check' % pid)
        return 2

    # shard plan: declared by the property module as a literal (parsed, not imported:
    # the parent never imports the code under test)
    plan = {'quick': 4, 'thorough': 16, 'quick_timeout': 900, 'thorough_timeout': 7200}
    for line in open(modpath):
        if line.startswith('SHARDS'):
            plan.update(eval(line.split('=', 1)[1]))
            break
    nshards = args.shards or plan[tier]
    only = None
    if args.replay:
        # a witness replays by re-running, in a fresh interpreter, the shard that produced it with the
        # same (seed, tier, shard, nshards): generators are seeded from exactly that tuple
        try:
            rec = json.load(open(args.replay))
            tier, seed = rec.get('tier', tier), int(rec.get('seed', seed))
            nshards = int(rec.get('nshards', plan[tier]))
            only = int(rec['first'].get('shard', 0))
            want_key = rec['key']
        except Exception as exc:
            print('INCONCLUSIVE property=%s reason=cannot read replay file: %r' % (pid, exc))
            return 2
    timeout = plan[tier + '_timeout']

    t0 = time.time()
    outdir = tempfile.mkdtemp(prefix='verif-out-')
    results = []
    try:
        with concurrent.futures.ThreadPoolExecutor(max_workers=min(nshards, 16)) as ex:
            futs = [ex.submit(run_shard, pid, tier, seed, i, nshards, outdir, timeout)
                    for i in range(nshards) if only is None or i == only]
            for f in futs:
                results.append(f.result())
        merged = merge(pid, tier, seed, nshards, results, outdir)
    finally:
        shutil.rmtree(outdir, ignore_errors=True)
    merged['wall_s'] = round(time.time() - t0, 2)
    if args.replay:
        hits = [v for v in merged['violations'] if v['key'] == want_key]
        if hits:
            print('VIOLATION property=%s replay=%s' % (pid, args.replay))
            print('  # reproduced %s: %s (%d witnesses in shard %d/%d, seed %d, tier %s)'
                  % (want_key, hits[0]['what'][:300], len(hits), only, nshards, seed, tier))
            return 1
        other = sorted(set(v['key'] for v in merged['violations']))
        crashed = [r for r in merged['inconclusive'] if r.startswith('shard ') or r.startswith('monitor error')]
        if crashed or merged['evaluations'] == 0:
            print('INCONCLUSIVE property=%s reason=replay did not run to completion: %s' % (pid, '; '.join(crashed[:3]) or 'no case evaluated'))
            return 2
        if other:
            # not the recorded witness, but the replayed shard does violate the property: report it through the normal path
            return report(pid, tier, seed, merged, replaying=True, nshards=nshards)
        print('%s replay: key %s not reproduced on the current tree (shard %d/%d, seed %d, tier %s)'
              % (pid, want_key, only, nshards, seed, tier))
        return 0
    return report(pid, tier, seed, merged, replaying=False, nshards=nshards)


def merge(pid, tier, seed, nshards, results, outdir):
    import numpy as np
    m = dict(evaluations=0, regimes={}, events={}, samples=[], violations=[],
             inconclusive=[], assumptions=[], rule='', exhaustive=None, extra={},
             need_regimes=set(), need_events=set(), shards=nshards, anchors={})
    keysets = []
    for shard, rc, res, dt in sorted(results, key=lambda r: r[0]):
        if res is None:
            m['inconclusive'].append('shard %d produced no result (rc=%s)' % (shard, rc))
            # violations the shard had already found before it was killed (written to a side file as they occur) still count
            side = os.path.join(outdir, 'shard%02d.json.violations' % shard)
            if os.path.exists(side):
                for line in open(side):
                    try:
                        m['violations'].append(json.loads(line))
                    except Exception:
                        pass
            continue
        if rc != 0:
            m['inconclusive'].append('shard %d exit %s' % (shard, rc))
        m['evaluations'] += res['evaluations']
        for k, v in res['regimes'].items():
            m['regimes'][k] = m['regimes'].get(k, 0) + v
        for k, v in res['events'].items():
            m['events'][k] = m['events'].get(k, 0) + v
        for k, v in res.get('anchors', {}).items():
            a = m['anchors'].setdefault(k, {'total': v['total'], 'hit': set()})
            a['hit'].update(v['hit'])
        if len(m['samples']) < 6:
            m['samples'].extend(res['samples'][:2])
        m['violations'].extend(res['violations'])
        m['inconclusive'].extend(res['inconclusive'])
        m['need_regimes'].update(res['need_regimes'])
        m['need_events'].update(res['need_events'])
        for a in res['assumptions']:
            if a not in m['assumptions']:
                m['assumptions'].append(a)
        m['rule'] = res['rule'] or m['rule']
        if res.get('exhaustive') is not None:
            m['exhaustive'] = res['exhaustive'] if m['exhaustive'] is None else (m['exhaustive'] and res['exhaustive'])
        for k, v in res.get('extra', {}).items():
            if isinstance(v, (int, float)) and not isinstance(v, bool):
                m['extra'][k] = m['extra'].get(k, 0) + v
            else:
                m['extra'][k] = v
        kf = res.get('keyfile')
        if kf and os.path.exists(kf):
            keysets.append(np.fromfile(kf, dtype=np.uint64))
    if keysets:
        m['distinct_nontrivial'] = int(len(np.unique(np.concatenate(keysets))))
    else:
        m['distinct_nontrivial'] = 0
    for k in sorted(m['need_regimes']):
        if m['regimes'].get(k, 0) == 0:
            m['inconclusive'].append('regime never reached: ' + k)
    for k in sorted(m['need_events']):
        if m['events'].get(k, 0) == 0:
            m['inconclusive'].append('deciding probe never fired: ' + k)
    if m['evaluations'] == 0 or m['distinct_nontrivial'] < 2:
        m['inconclusive'].append('too few cases observed (evaluations=%d distinct=%d)'
                                 % (m['evaluations'], m['distinct_nontrivial']))
    return m


def report(pid, tier, seed, m, replaying=False, nshards=None):
    known = load_known_findings()
    seen_known = {}
    new = []
    for v in m['violations']:
        k = (pid, v['key'])
        if k in known:
            seen_known.setdefault(v['key'], []).append(v)
        else:
            new.append(v)

    os.makedirs(os.path.join(HERE, 'replays'), exist_ok=True)
    lines = []
    for key, vs in sorted(seen_known.items()):
        lines.append('KNOWN-FINDING: property=%s %s (key=%s, seen %d times this run)'
                     % (pid, known[(pid, key)], key, len(vs)))
    # group new violations by mechanism key: one replay file (first witness) per key
    bykey = {}
    for v in new:
        bykey.setdefault(v['key'], []).append(v)
    for key, vs in sorted(bykey.items()):
        safe = ''.join(ch if ch.isalnum() or ch in '-_.' else '_' for ch in key)[:80]
        sub = '' if os.path.abspath(os.environ.get('VERIF_REPO', '/repo')) == '/repo' else 'mutant-'
        path = os.path.join('replays', '%s%s-%s-seed%d.json' % (sub, pid, safe, seed))
        try:
            with open(os.path.join(HERE, path), 'w') as fh:
                json.dump({'property': pid, 'key': key, 'tier': tier, 'seed': seed, 'nshards': nshards or m['shards'],
                           'count': len(vs), 'first': vs[0], 'more': vs[1:4]}, fh, indent=1,
                          default=str)
        except Exception as exc:
            path = path + ' (could not be written: %r)' % (exc,)
        lines.append('VIOLATION property=%s replay=%s' % (pid, path))
        lines.append('  # %s: %s (%d witnesses)' % (key, vs[0]['what'][:300], len(vs)))

    level = LEVELS.get(pid, 'exploration')
    cov = {
        'evaluations': int(m['evaluations']),
        'distinct_nontrivial': int(m['distinct_nontrivial']),
        'rule': m['rule'],
        'samples': m['samples'][:6] or ['<none>'],
        'regimes': dict(sorted(m['regimes'].items())),
        'probe_events': dict(sorted(m['events'].items())),
        'anchor_lines': {k: {'reached': len(v['hit']), 'total': v['total']}
                         for k, v in sorted(m['anchors'].items())},
        'shards': m['shards'],
        'known_findings_seen': sorted(seen_known),
        'inconclusive_reasons': m['inconclusive'][:20],
    }
    if m['exhaustive'] is not None:
        cov['exhaustive'] = bool(m['exhaustive'])
    cov.update(m['extra'])
    ev = {
        'property_id': pid, 'tier': tier, 'seed': int(seed), 'level': level,
        'coverage': cov, 'assumptions': m['assumptions'], 'wall_s': m['wall_s'],
        'violations': len(new),
        'verdict': 'violated' if new else ('inconclusive' if m['inconclusive'] else 'held'),
    }
    for l in lines:
        print(l)
    sys.stdout.flush()
    on_repo = os.path.abspath(os.environ.get('VERIF_REPO', '/repo')) == '/repo'
    if not replaying and on_repo:   # evidence only ever comes from /repo itself
        try:
            os.makedirs(os.path.join(HERE, 'evidence'), exist_ok=True)
            tmp = os.path.join(HERE, 'evidence', '.%s.json.tmp' % pid)
            with open(tmp, 'w') as fh:
                json.dump(ev, fh, indent=1, default=str)
                fh.write('\n')
            os.replace(tmp, os.path.join(HERE, 'evidence', '%s.json' % pid))
        except Exception as exc:
            m['inconclusive'].append('evidence file could not be written: %r' % (exc,))
    if new:
        rc = 1
    elif m['inconclusive']:
        print('INCONCLUSIVE property=%s reason=%s' % (pid, '; '.join(m['inconclusive'][:5])))
        rc = 2
    else:
        rc = 0
    print('%s tier=%s seed=%d verdict=%s evaluations=%d distinct=%d events=%d wall=%.1fs'
          % (pid, tier, seed, ev['verdict'], cov['evaluations'], cov['distinct_nontrivial'],
             sum(m['events'].values()), m['wall_s']))
    return rc


def guarded_main():
    """a failure of the launcher itself is never a verdict on the code under test: INCONCLUSIVE, exit 2"""
    try:
        return main()
    except SystemExit:
        raise
    except BaseException as exc:
        if isinstance(exc, KeyboardInterrupt):
            raise
        import traceback
        traceback.print_exc()
        pid = next((a for a in sys.argv[1:] if a[:1] == 'C' and a[1:].isdigit()), '?')
        print('INCONCLUSIVE property=%s reason=launcher error: %r' % (pid, exc))
        return 2


if __name__ == '__main__':
    sys.exit(guarded_main())
