#!/usr/bin/env python3
"""Regenerates MANIFEST.json from the table below (kept next to the code so the two
cannot drift).  Run:  python3 tools_mkmanifest.py"""
import json, os
HERE = os.path.dirname(os.path.abspath(__file__))

CHECKS = {}   # filled by register()
def reg(pid, category, text, note, technique, design):
    CHECKS[pid] = dict(category=category, text=text, note=note, technique=technique, design=design)

exec(open(os.path.join(HERE, 'manifest_table.py')).read())

props = [json.loads(l)['id'] for l in open(os.path.join(HERE, 'properties.jsonl'))]
checks = []
na = []
for pid in props:
    if pid in CHECKS and os.path.exists(os.path.join(HERE, 'vmon', 'props', pid.lower() + '.py')):
        c = CHECKS[pid]
        checks.append({
            'property_id': pid,
            'quick_cmd': './check %s --tier quick' % pid,
            'thorough_cmd': './check %s --tier thorough' % pid,
            'evidence_file': 'evidence/%s.json' % pid,
            'replay_cmd_template': './check %s --replay {path}' % pid,
            'engine': 'vmon',
            'level_claimed': {'category': c['category'], 'text': c['text'], 'design_ref': c['design']},
            'level_note': c['note'],
            'technique': c['technique'],
        })
    else:
        na.append({'property_id': pid, 'reason': NOT_YET.get(pid, 'check not built yet in this round; see DESIGN.md section 4 for the planned monitor')})
m = {
    'version': 1,
    'setup_cmd': './setup.sh',
    'hooks': {
        'guard': 'SEDFITTER_VERIF',
        'enable': 'no source hooks: monitors (icontract contracts, audit hooks) are attached from the harness to the classes/functions of the working tree at import time; PYTHONPATH=/repo first so the working tree is what runs',
        'baseline_off_cmd': 'cd /repo && /venv/bin/python -m pytest -ra -q -p no:cacheprovider --timeout=900 --continue-on-collection-errors',
        'source_commits': [],
        'add_only': True,
    },
    'engines': [{'name': 'vmon', 'path': 'vmon/', 'serves_properties': [c['property_id'] for c in checks],
                 'kind_free_text': 'runtime monitoring: contracts/probes on the real functions, reference-model oracles, trace/offline checkers, fault injection, generated workloads sharded over fresh interpreters'}],
    'checks': checks,
    'notes': NOTES,
}
if na:
    m['not_applicable'] = na
json.dump(m, open(os.path.join(HERE, 'MANIFEST.json'), 'w'), indent=1)
print('checks:', len(checks), 'not_applicable:', len(na))
