#!/bin/bash
# tools/seedcheck.sh <name> <srcdir with patch.diff demo.py meta.json> "<checks to run>" [tier]
# Confirms a seeded change in a scratch copy of /repo (outside /repo and /verif):
#   1. patch applies to /repo HEAD            2. repo suite still passes with it
#   3. demo passes without / fails with it    4. runs the given checks against the patched copy (VERIF_REPO)
# and stores patch, demo, meta + what was run under /verif/seeded/<name>/.
name="$1"; src="$2"; checks="$3"; tier="${4:-quick}"
here="$(cd "$(dirname "$0")/.." && pwd)"
scratch=$(mktemp -d /tmp/verif-seed-XXXXXX)
trap 'rm -rf "$scratch"' EXIT
mkdir -p "$scratch/orig" "$scratch/mut"
git -C /repo archive HEAD | tar -x -C "$scratch/orig"
git -C /repo archive HEAD | tar -x -C "$scratch/mut"
res="$scratch/result.txt"; : > "$res"
if ! (cd "$scratch/mut" && git apply --whitespace=nowarn "$src/patch.diff" 2>>"$res"); then
  if ! (cd "$scratch/mut" && patch -p1 -s < "$src/patch.diff" >>"$res" 2>&1); then echo "PATCH-DOES-NOT-APPLY" | tee -a "$res"; cat "$res"; exit 3; fi
fi
echo "patch: applies" >> "$res"
suite=$(cd "$scratch/mut" && PYTHONPATH="$scratch/mut" MPLBACKEND=Agg /venv/bin/python -m pytest -q -p no:cacheprovider --timeout=900 sedfitter 2>&1 | tail -1)
echo "suite-with-patch: $suite" >> "$res"
(cd "$scratch" && SEDFITTER_SRC="$scratch/orig" PYTHONPATH="$scratch/orig" MPLBACKEND=Agg timeout 300 /venv/bin/python "$src/demo.py" >/dev/null 2>&1 </dev/null); d0=$?
(cd "$scratch" && SEDFITTER_SRC="$scratch/mut" PYTHONPATH="$scratch/mut" MPLBACKEND=Agg timeout 300 /venv/bin/python "$src/demo.py" >/dev/null 2>&1 </dev/null); d1=$?
echo "demo-exit-original: $d0   demo-exit-patched: $d1" >> "$res"
cd "$here"
for c in $checks; do
  out=$(VERIF_REPO="$scratch/mut" ./check "$c" --tier "$tier" 2>&1 | grep -E "^(VIOLATION|INCONCLUSIVE|C[0-9]+ tier)" | cut -c1-220)
  echo "check $c ($tier): $(echo "$out" | tr '\n' '|')" >> "$res"
done
mkdir -p "$here/seeded/$name"
cp "$src/patch.diff" "$src/demo.py" "$here/seeded/$name/" 2>/dev/null
[ -f "$src/meta.json" ] && cp "$src/meta.json" "$here/seeded/$name/agent_meta.json"
cp "$res" "$here/seeded/$name/confirmation.txt"
cat "$res"
