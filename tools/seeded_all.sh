#!/bin/bash
# tools/seeded_all.sh [tier] [name-prefix]  — regression of the harness: every confirmed seeded change under seeded/ is applied to a
# scratch copy of /repo HEAD and the check of the property it targets is run against it (VERIF_REPO); writes seeded/RESULTS.txt.
# A seeded change that is no longer caught is a regression of the *checks*.  16-way parallel.
tier="${1:-quick}"; pat="${2:-}"
here="$(cd "$(dirname "$0")/.." && pwd)"; cd "$here"
one() {
  d="$1"; tier="$2"; name=$(basename "$d")
  # (the check that is run is the one of the targeted property, unless meta.json names another one under "check" and says why)
  prop=$(python3 -c "import json,sys;m=json.load(open('$d/meta.json'));print(m.get('check', m['property']))")
  scratch=$(mktemp -d /tmp/verif-seedall-XXXXXX)
  git -C /repo archive HEAD | tar -x -C "$scratch"
  if (cd "$scratch" && git apply --whitespace=nowarn "$here/$d/patch.diff" 2>/dev/null) || (cd "$scratch" && patch -p1 -s < "$here/$d/patch.diff" >/dev/null 2>&1); then
    out=$(VERIF_REPO="$scratch" ./check "$prop" --tier "$tier" 2>&1 | grep -E "^(VIOLATION|INCONCLUSIVE|C[0-9]+ tier)")
    nv=$(echo "$out" | grep -c '^VIOLATION')
    keys=$(echo "$out" | grep '^VIOLATION' | sed -E 's/.*mutant-C[0-9]+-(.*)-seed[0-9]+\.json/\1/' | tr '\n' ' ' | cut -c1-200)
    verdict=$(echo "$out" | grep -oE 'verdict=[a-z]+' | head -1)
    if [ "$nv" -gt 0 ]; then echo "CAUGHT  $name  $prop  $keys"; else echo "MISSED  $name  $prop  $verdict"; fi
  else
    echo "NOAPPLY $name  $prop  (patch no longer applies to /repo HEAD)"
  fi
  rm -rf "$scratch"
}
export -f one; export here
if [ -n "$pat" ]; then ls -d seeded/${pat}*/ | sed 's#/$##' | xargs -P 6 -I{} bash -c 'one {} '"$tier" | sort; exit 0; fi
ls -d seeded/*/ | sed 's#/$##' | xargs -P 6 -I{} bash -c 'one {} '"$tier" | sort > seeded/RESULTS.txt
cat seeded/RESULTS.txt
grep -c '^CAUGHT' seeded/RESULTS.txt | sed 's/^/caught: /'
! grep -q -E '^(MISSED|NOAPPLY)' seeded/RESULTS.txt
