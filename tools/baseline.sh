#!/bin/bash
# Runs the repository's pinned test command (hooks off: there are none) and compares with BASELINE.json stable_pass.
out=$(mktemp /tmp/verif-junit-XXXXXX.xml)
cd /repo && /venv/bin/python -m pytest -ra -q -p no:cacheprovider --timeout=900 --continue-on-collection-errors --junitxml=$out >/dev/null 2>&1
python3 - "$out" <<'PY'
import json, sys, xml.etree.ElementTree as ET
b = json.load(open('/root/.vp/BASELINE.json'))
t = ET.parse(sys.argv[1]).getroot()
res = {}
for tc in t.iter('testcase'):
    name = tc.get('classname') + '::' + tc.get('name')
    bad = any(c.tag in ('failure', 'error') for c in tc)
    skip = any(c.tag == 'skipped' for c in tc)
    res[name] = 'fail' if bad else ('skip' if skip else 'pass')
missing = [n for n in b['stable_pass'] if res.get(n) != 'pass']
print('stable_pass expected %d, passing %d; total pass now %d; failing now: %s' % (
    len(b['stable_pass']), len(b['stable_pass']) - len(missing), sum(v == 'pass' for v in res.values()),
    [n for n, v in res.items() if v == 'fail']))
if missing:
    print('REGRESSION:', missing)
    sys.exit(1)
PY
rc=$?
rm -f $out
exit $rc
