#!/bin/bash
# tools/mut.sh <check ids, comma separated> <file under sedfitter/> <python-regex> <replacement> [tier]
# Applies one regex substitution to a scratch copy of /repo/sedfitter (outside /repo and /verif), runs the
# checks against it (VERIF_REPO), prints their verdict lines, removes the copy.
set -e
ids="$1"; file="$2"; pat="$3"; rep="$4"; tier="${5:-quick}"
scratch=$(mktemp -d /tmp/verif-mut-XXXXXX)
trap 'rm -rf "$scratch"' EXIT
cp -r /repo/sedfitter "$scratch/"
/venv/bin/python - "$scratch/sedfitter/$file" "$pat" "$rep" <<'PY'
import re, sys
p, pat, rep = sys.argv[1:4]
s = open(p).read()
n = len(re.findall(pat, s))
if n == 0:
    sys.exit('pattern not found')
open(p, 'w').write(re.sub(pat, rep, s, count=1))
print('mutated %s (%d matches, first replaced)' % (p, n))
PY
cd "$(dirname "$0")/.."
for id in ${ids//,/ }; do
  VERIF_REPO="$scratch" ./check "$id" --tier "$tier" | grep -E "^(VIOLATION|INCONCLUSIVE|KNOWN|C[0-9]+ tier)" | cut -c1-200 | head -8 || true
done
