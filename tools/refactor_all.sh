#!/bin/bash
# tools/refactor_all.sh [tier] — negative controls: behaviour-preserving refactors of the package under refactors/*.diff
# (the repository suite passes with each and every property still holds).  Every check must stay silent on each of them;
# a VIOLATION here is a false alarm of the harness.  Writes refactors/RESULTS.txt.
tier="${1:-quick}"
here="$(cd "$(dirname "$0")/.." && pwd)"; cd "$here"
: > refactors/RESULTS.txt
for pf in refactors/*.diff; do
  name=$(basename "$pf" .diff)
  scratch=$(mktemp -d /tmp/verif-refac-XXXXXX)
  git -C /repo archive HEAD | tar -x -C "$scratch"
  if ! (cd "$scratch" && patch -p1 -s < "$here/$pf"); then echo "NOAPPLY $name" | tee -a refactors/RESULTS.txt; rm -rf "$scratch"; continue; fi
  suite=$(cd "$scratch" && PYTHONPATH="$scratch" MPLBACKEND=Agg /venv/bin/python -m pytest -q -p no:cacheprovider --timeout=900 sedfitter 2>&1 | tail -1 | cut -c1-40)
  case "$suite" in *failed*|*error*) echo "STALE   $name  (the control itself breaks the repository suite: $suite — rebase the diff)" | tee -a refactors/RESULTS.txt; rm -rf "$scratch"; continue;; esac
  bad=""
  for c in C01 C02 C03 C04 C05 C06 C07 C08 C09 C10 C11 C12 C13 C14 C15 C16 C17 C18 C19 C20; do
    out=$(VERIF_REPO="$scratch" ./check $c --tier "$tier" 2>&1 | grep -E "^(VIOLATION|INCONCLUSIVE)" | head -3 | cut -c1-160 | tr '\n' ';')
    [ -n "$out" ] && bad="$bad $c:[$out]"
  done
  if [ -z "$bad" ]; then echo "SILENT  $name  (suite: $suite)" | tee -a refactors/RESULTS.txt; else echo "ALARM   $name  $bad" | tee -a refactors/RESULTS.txt; fi
  rm -rf "$scratch"
done
! grep -q -E '^(ALARM|NOAPPLY|STALE)' refactors/RESULTS.txt
