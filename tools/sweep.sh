#!/bin/bash
# tools/sweep.sh <tier> "<seeds>" [checks...]   — runs checks for several VERIF_SEED values, prints only verdict lines
tier="$1"; seeds="$2"; shift 2
checks="${@:-C01 C02 C03 C04 C05 C06 C07 C08 C09 C10 C11 C12 C13 C14 C15 C16 C17 C18 C19 C20}"
cd "$(dirname "$0")/.."
for s in $seeds; do
  for c in $checks; do
    VERIF_SEED=$s ./check $c --tier $tier 2>&1 | grep -E "^(VIOLATION|INCONCLUSIVE|KNOWN|  #|C[0-9]+ tier)" | cut -c1-400
  done
done
echo SWEEP-DONE
