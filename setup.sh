#!/bin/bash
# MANIFEST.setup_cmd: offline install of the contract libraries next to the harness
# (never into /venv), and byte-compile check of the harness.  Idempotent.
set -e
cd "$(dirname "$0")"
export PIP_NO_INDEX=1
if [ ! -d .deps/icontract ] || [ ! -d .deps/deal ]; then
  (
    flock 9
    if [ ! -d .deps/icontract ] || [ ! -d .deps/deal ]; then
      rm -rf .deps.tmp
      /venv/bin/pip install --quiet --no-index --find-links /opt/veriftools/wheels \
          --target .deps.tmp icontract deal >/dev/null 2>&1
      rm -rf .deps && mv .deps.tmp .deps
    fi
  ) 9>.deps.lock
fi
/venv/bin/python - <<'PY'
import sys, compileall
sys.path.append('.deps')
import icontract, deal
ok = compileall.compile_dir('vmon', quiet=1, legacy=False, force=False)
sys.exit(0 if ok else 1)
PY
echo "setup ok"
